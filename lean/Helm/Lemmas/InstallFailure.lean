/-
An install on an empty history one of whose cluster-side phases fails (lemmas for C03): every
failing phase leads to `failInstallOn` from the one-record ledger; with --atomic and a fault-free
uninstall nothing remains.
-/
import Helm.Lemmas.UpgradeFailure
import Helm.Lemmas.UninstallSuccess
namespace Helm.Ledger

theorem install_reaches_fail (at_ : FailAt) (fl : InstallFlags) (fN : Faults) (p : Nat)
    (hdry : fl.dryRun = false) (hrep : fl.replace = false)
    (hhook : at_.needsHook = true → fl.disableHooks = false ∧ 0 < fl.nHooks) :
    ∃ s : St, s.ledger = [⟨1, .pendingInstall, p⟩] ∧ s.decs = [] ∧
      install fl at_.faults fN p [] = failInstallOn fl fN ⟨1, .pendingInstall, p⟩ s := by
  let rel : Rec := ⟨1, .pendingInstall, p⟩
  let nh := if fl.disableHooks then 0 else fl.nHooks
  let s2 : St := (stCreate { ledger := [], decs := [] } rel).2
  have hs2 : stCreate { ledger := [], decs := [] } rel = (.ok, s2) := by
    simp [s2, stCreate, nextDec, get?]
  have hs2l : s2.ledger = [rel] := by simp [s2, stCreate, nextDec, get?]
  have hs2d : s2.decs = [] := by simp [s2, stCreate, nextDec, get?]
  have huniq : ∀ (s : St), s.ledger = [rel] → ∀ x ∈ s.ledger, x.rev = rel.rev → x = rel := by
    intro s hs x hx _; rw [hs] at hx; simpa using hx
  have hs2' : stCreate { ledger := [], decs := [] } ⟨1, .pendingInstall, p⟩ = (.ok, s2) := hs2
  cases at_ with
  | preHook =>
    obtain ⟨hdh, hn⟩ := hhook rfl
    have hnh : (if fl.disableHooks then 0 else fl.nHooks) = fl.nHooks := by simp [hdh]
    have hn0 : ¬ fl.nHooks = 0 := by omega
    have hpre := hookPhase_same rel fl.nHooks .fail s2 hs2d (by simp [hs2l]) (huniq s2 hs2l)
    let s3 : St := (hookPhase s2 rel fl.nHooks .fail).2
    have hs3 : hookPhase s2 rel fl.nHooks .fail = (.fail, s3) := by
      apply Prod.ext
      · simp only [hpre.1, hn0, if_false]
      · rfl
    have hs3' : hookPhase s2 ⟨1, .pendingInstall, p⟩ fl.nHooks .fail = (.fail, s3) := hs3
    refine ⟨s3, by rw [← hs2l]; exact hpre.2.1, hpre.2.2, ?_⟩
    unfold install
    simp only [FailAt.faults, hdry, hrep, last?, List.isEmpty_nil, if_true, Bool.not_true, Bool.false_eq_true, if_false, hs2', hnh, hs3']
  | resources =>
    have hpre := hookPhase_same rel nh .ok s2 hs2d (by simp [hs2l]) (huniq s2 hs2l)
    let s3 : St := (hookPhase s2 rel nh .ok).2
    have hs3 : hookPhase s2 rel nh .ok = (.ok, s3) := by
      apply Prod.ext
      · simp only [hpre.1]; split <;> rfl
      · rfl
    have hs3' : hookPhase s2 ⟨1, .pendingInstall, p⟩ (if fl.disableHooks then 0 else fl.nHooks) .ok = (.ok, s3) := hs3
    refine ⟨s3, by rw [← hs2l]; exact hpre.2.1, hpre.2.2, ?_⟩
    unfold install
    simp only [FailAt.faults, hdry, hrep, last?, List.isEmpty_nil, if_true, Bool.not_true, Bool.false_eq_true, if_false, hs2', hs3']
  | wait =>
    have hpre := hookPhase_same rel nh .ok s2 hs2d (by simp [hs2l]) (huniq s2 hs2l)
    let s3 : St := (hookPhase s2 rel nh .ok).2
    have hs3 : hookPhase s2 rel nh .ok = (.ok, s3) := by
      apply Prod.ext
      · simp only [hpre.1]; split <;> rfl
      · rfl
    have hs3' : hookPhase s2 ⟨1, .pendingInstall, p⟩ (if fl.disableHooks then 0 else fl.nHooks) .ok = (.ok, s3) := hs3
    refine ⟨s3, by rw [← hs2l]; exact hpre.2.1, hpre.2.2, ?_⟩
    unfold install
    simp only [FailAt.faults, hdry, hrep, last?, List.isEmpty_nil, if_true, Bool.not_true, Bool.false_eq_true, if_false, hs2', hs3']
  | postHook =>
    obtain ⟨hdh, hn⟩ := hhook rfl
    have hnh : (if fl.disableHooks then 0 else fl.nHooks) = fl.nHooks := by simp [hdh]
    have hn0 : ¬ fl.nHooks = 0 := by omega
    have hpre := hookPhase_same rel fl.nHooks .ok s2 hs2d (by simp [hs2l]) (huniq s2 hs2l)
    let s3 : St := (hookPhase s2 rel fl.nHooks .ok).2
    have hs3 : hookPhase s2 rel fl.nHooks .ok = (.ok, s3) := by
      apply Prod.ext
      · simp only [hpre.1]; split <;> rfl
      · rfl
    have hs3l : s3.ledger = [rel] := by rw [← hs2l]; exact hpre.2.1
    have hpost := hookPhase_same rel fl.nHooks .fail s3 hpre.2.2 (by simp [hs3l]) (huniq s3 hs3l)
    let s4 : St := (hookPhase s3 rel fl.nHooks .fail).2
    have hs4 : hookPhase s3 rel fl.nHooks .fail = (.fail, s4) := by
      apply Prod.ext
      · simp only [hpost.1, hn0, if_false]
      · rfl
    have hs3' : hookPhase s2 ⟨1, .pendingInstall, p⟩ fl.nHooks .ok = (.ok, s3) := hs3
    have hs4' : hookPhase s3 ⟨1, .pendingInstall, p⟩ fl.nHooks .fail = (.fail, s4) := hs4
    refine ⟨s4, by rw [← hs3l]; exact hpost.2.1, hpost.2.2, ?_⟩
    unfold install
    simp only [FailAt.faults, hdry, hrep, last?, List.isEmpty_nil, if_true, Bool.not_true, Bool.false_eq_true, if_false, hs2', hnh, hs3', hs4']

/-- With the atomic flag and a fault-free uninstall nothing remains of the release. -/
theorem install_failure_atomic (at_ : FailAt) (fl : InstallFlags) (p : Nat)
    (hdry : fl.dryRun = false) (hrep : fl.replace = false) (hatomic : fl.atomic = true)
    (hhook : at_.needsHook = true → fl.disableHooks = false ∧ 0 < fl.nHooks) :
    (install fl at_.faults {} p []).2 = .error ∧ (install fl at_.faults {} p []).1.ledger = [] := by
  obtain ⟨s, hsl, hsd, heq⟩ := install_reaches_fail at_ fl {} p hdry hrep hhook
  have hlast : last? [(⟨1, .pendingInstall, p⟩ : Rec)] = some ⟨1, .pendingInstall, p⟩ := by
    simp [last?, maxRev, get?]
  obtain ⟨h1, h2⟩ := uninstallOn_success_purges { keepHistory := false, disableHooks := fl.disableHooks, nHooks := fl.nHooks }
    s [⟨1, .pendingInstall, p⟩] hsl hsd ⟨1, .pendingInstall, p⟩ rfl rfl (by simp [revs]) hlast (by simp)
  rw [heq]
  unfold failInstallOn
  simp only [hatomic, if_true]
  have hu : uninstallOn { keepHistory := false, disableHooks := fl.disableHooks, nHooks := fl.nHooks } {} s =
      ((uninstallOn { keepHistory := false, disableHooks := fl.disableHooks, nHooks := fl.nHooks } {} s).1, .success) :=
    Prod.ext rfl h1
  rw [hu]
  exact ⟨by simp, h2⟩

end Helm.Ledger
