import Helm.Model.Index
namespace Helm.Index

theorem geEntry_total (a b : Entry) : (geEntry a b || geEntry b a) = true := by
  simp only [geEntry, Bool.or_eq_true, decide_eq_true_eq]
  rcases List.le_total b.key a.key with h | h
  · left; exact h
  · right; exact h

theorem geEntry_trans (a b c : Entry) : geEntry a b = true → geEntry b c = true → geEntry a c = true := by
  simp only [geEntry, decide_eq_true_eq]
  intro h1 h2
  exact List.le_trans h2 h1

theorem firstMatch_map_some (p : Entry → Bool) (l : List Entry) :
    firstMatch p (l.map some) = .ok (l.find? p) := by
  induction l with
  | nil => rfl
  | cons e rest ih =>
    simp only [List.map_cons, firstMatch, List.find?_cons]
    cases p e <;> simp [ih]

/-- In a list sorted descending, the first element satisfying `p` is a maximum of those satisfying `p`. -/
theorem first_match_is_max (p : Entry → Bool) (l : List Entry)
    (hs : l.Pairwise fun a b => b.key ≤ a.key) (e : Entry) (h : l.find? p = some e) :
    ∀ e' ∈ l, p e' = true → e'.key ≤ e.key := by
  induction l with
  | nil => simp at h
  | cons x rest ih =>
    rw [List.pairwise_cons] at hs
    simp only [List.find?_cons] at h
    intro e' he' hp'
    cases hpx : p x with
    | true =>
      rw [hpx] at h
      cases h
      rcases List.mem_cons.mp he' with rfl | hr
      · exact List.le_refl _
      · exact hs.1 e' hr
    | false =>
      rw [hpx] at h
      rcases List.mem_cons.mp he' with rfl | hr
      · rw [hpx] at hp'; cases hp'
      · exact ih hs.2 h e' hr hp'

theorem keptEntries_map_some (raw : List Entry) : keptEntries (raw.map some) = raw.filter (·.valid) := by
  unfold keptEntries
  induction raw with
  | nil => rfl
  | cons e rest ih =>
    simp only [List.map_cons, List.filterMap_cons, List.filter_cons]
    cases e.valid <;> simp [ih]

theorem loadEntries_map_some (raw : List Entry) :
    loadEntries (raw.map some) = .ok (((raw.filter (·.valid)).mergeSort geEntry).map some) := by
  unfold loadEntries
  rw [keptEntries_map_some]

end Helm.Index
