import Helm.Model.ChartIO
import Helm.Lemmas.ArchivePath
namespace Helm.ArchivePath

theorem join_split (c : Char) (s : Str) : joinWith c (splitOn c s) = s := by
  induction s with
  | nil => rfl
  | cons x r ih =>
    simp only [splitOn]
    by_cases hx : x = c
    · subst hx
      simp only [if_true]
      cases h : splitOn x r with
      | nil => exact absurd h (splitOn_ne_nil x r)
      | cons p ps => rw [h] at ih; simp [joinWith, ih]
    · simp only [hx, if_false]
      cases h : splitOn c r with
      | nil => exact absurd h (splitOn_ne_nil c r)
      | cons p ps =>
        rw [h] at ih
        simp only
        cases ps with
        | nil => simp only [joinWith] at ih ⊢; rw [ih]
        | cons q qs => simp only [joinWith] at ih ⊢; rw [← ih]; rfl

theorem foldl_cleanStep_normal (comps : List Str) (h : ∀ c ∈ comps, Normal c) :
    ∀ stack, comps.foldl (cleanStep false) stack = comps.reverse ++ stack := by
  induction comps with
  | nil => intro s; rfl
  | cons c rest ih =>
    intro s
    have hc := h c List.mem_cons_self
    simp only [List.foldl_cons]
    have hstep : cleanStep false s c = c :: s := by
      unfold cleanStep
      have h1 : (c = [] || c = ['.']) = false := by simp [hc.1, hc.2.1]
      simp only [h1, Bool.false_eq_true, if_false, hc.2.2.1]
    rw [hstep, ih (fun x hx => h x (List.mem_cons_of_mem _ hx))]
    simp

/-- `path.Clean` leaves a clean relative path unchanged. -/
theorem pathClean_of_normal (n : Str) (hn : n ≠ []) (h : ∀ c ∈ splitOn '/' n, Normal c) : pathClean n = n := by
  have hcomps : cleanComps false (splitOn '/' n) = splitOn '/' n := by
    simp [cleanComps, foldl_cleanStep_normal _ h []]
  cases n with
  | nil => exact absurd rfl hn
  | cons x r =>
    have hx : x ≠ '/' := by
      intro hx; subst hx
      have : ([] : Str) ∈ splitOn '/' ('/' :: r) := by simp [splitOn]
      exact (h [] this).1 rfl
    have hjs := join_split '/' (x :: r)
    cases hsp : splitOn '/' (x :: r) with
    | nil => exact absurd hsp (splitOn_ne_nil '/' _)
    | cons p ps =>
      rw [hsp] at hcomps hjs
      unfold pathClean
      split
      · rename_i heq; cases heq
      · rename_i heq; cases heq; exact absurd rfl hx
      · rw [hsp, hcomps]
        exact hjs

end Helm.ArchivePath

namespace Helm.ChartIO
open Helm.ArchivePath

/-- file names a chart can carry through packaging: relative, clean, slash-separated, no
backslash, not starting with `..`, no drive prefix -/
def CleanName (n : Str) : Prop :=
  n ≠ [] ∧ '\\' ∉ n ∧ (∀ c ∈ splitOn '/' n, Normal c) ∧ dotdot.isPrefixOf n = false ∧ drivePrefix n = false

/-- Stripping the top directory that `Save` adds gives back exactly the name that was saved --
for every clean name and every chart (directory) name without separators. -/
theorem normName_prefixed (base n : Str) (hb1 : '/' ∉ base) (hb2 : '\\' ∉ base)
    (hb3 : base ≠ "Chart.yaml".toList) (hn : CleanName n) :
    normName (base ++ '/' :: n) = .ok n := by
  obtain ⟨hne, hbs, hnorm, hdd, hdrv⟩ := hn
  unfold normName
  have hcont : (base ++ '/' :: n).contains '\\' = false := by
    cases h : (base ++ '/' :: n).contains '\\' with
    | false => rfl
    | true =>
      rw [List.contains_iff_mem] at h
      simp only [List.mem_append, List.mem_cons] at h
      rcases h with h | h | h
      · exact absurd h hb2
      · exact absurd h (by decide)
      · exact absurd h hbs
  simp only [hcont, Bool.false_eq_true, if_false]
  rw [splitOn_append_sep '/' base n hb1]
  simp only [List.tail_cons, List.head?_cons, join_split]
  have habs : isAbs n = false := by
    cases n with
    | nil => exact absurd rfl hne
    | cons x r =>
      simp only [isAbs, List.head?_cons]
      have hx : x ≠ '/' := by
        intro hx; subst hx
        have : ([] : Str) ∈ splitOn '/' ('/' :: r) := by simp [splitOn]
        exact (hnorm [] this).1 rfl
      simp [hx]
  simp only [habs, Bool.false_eq_true, if_false, pathClean_of_normal n hne hnorm]
  have hdot : n ≠ ['.'] := by
    intro h; subst h
    exact (hnorm ['.'] (by simp [splitOn])).2.1 rfl
  simp only [hdot, if_false, hdd, Bool.false_eq_true, hdrv]
  have hb3' : ¬ (some base = some "Chart.yaml".toList) := by
    intro h; exact hb3 (Option.some.inj h)
  simp only [hb3', if_false]

theorem trimBOM_id (d : Bytes) (h : bom.isPrefixOf d = false) : trimBOM d = d := by
  simp [trimBOM, h]

end Helm.ChartIO
