/-
The keys storage.go makes (`makeKey name version`) meet the guard of the memory driver's
refinement theorem whenever the release name contains no ".v" (lemmas for C10).
-/
import Helm.Model.Storage
namespace Helm.Storage

theorem countDotV_dotv (r : List Char) : countDotV ('.' :: 'v' :: r) = countDotV r + 1 := by
  simp [countDotV]

theorem countDotV_cons_of_not (c : Char) (r : List Char) (h : ¬ (c = '.' ∧ r.head? = some 'v')) :
    countDotV (c :: r) = countDotV r := by
  cases r with
  | nil => simp [countDotV]
  | cons d r' =>
    by_cases hc : c = '.'
    · subst hc
      have hd : d ≠ 'v' := by intro hd; apply h; simp [hd]
      conv => lhs; unfold countDotV
      split
      · rename_i heq; simp at heq; exact absurd heq.1 hd
      · rename_i heq; simp at heq; obtain ⟨_, h2⟩ := heq; subst h2; rfl
      · rename_i heq; simp at heq
    · conv => lhs; unfold countDotV
      split
      · rename_i heq; simp at heq; exact absurd heq.1 hc
      · rename_i heq; simp at heq; obtain ⟨_, h2⟩ := heq; subst h2; rfl
      · rename_i heq; simp at heq

theorem afterDotV_cons_of_not (c : Char) (r : List Char) (h : ¬ (c = '.' ∧ r.head? = some 'v')) :
    afterDotV (c :: r) = afterDotV r := by
  cases r with
  | nil => simp [afterDotV]
  | cons d r' =>
    conv => lhs; unfold afterDotV
    split
    · rename_i heq; simp at heq; exact absurd ⟨heq.1, by simp [heq.2.1]⟩ h
    · rename_i heq; simp at heq; obtain ⟨_, h2⟩ := heq; subst h2; rfl
    · rename_i heq; simp at heq

theorem beforeDotV_cons_of_not (c : Char) (r : List Char) (h : ¬ (c = '.' ∧ r.head? = some 'v')) :
    beforeDotV (c :: r) = c :: beforeDotV r := by
  cases r with
  | nil => simp [beforeDotV]
  | cons d r' =>
    conv => lhs; unfold beforeDotV
    split
    · rename_i heq; simp at heq; exact absurd ⟨heq.1, by simp [heq.2.1]⟩ h
    · rename_i heq; simp at heq; obtain ⟨h1, h2⟩ := heq; subst h1; subst h2; rfl
    · rename_i heq; simp at heq

theorem countDotV_digits (ds : List Char) (h : ∀ c ∈ ds, c.isDigit = true) : countDotV ds = 0 := by
  induction ds with
  | nil => rfl
  | cons c r ih =>
    have hc : c ≠ '.' := by
      intro e; have := h c List.mem_cons_self; rw [e] at this; revert this; decide
    rw [countDotV_cons_of_not c r (fun hh => hc hh.1)]
    exact ih (fun x hx => h x (List.mem_cons_of_mem _ hx))

/-- a name without ".v", then ".v", then digits: exactly one ".v", the digits after it, the
name before it -/
theorem key_parts (nm ds : List Char) (hn : countDotV nm = 0) (hd : countDotV ds = 0) :
    countDotV (nm ++ '.' :: 'v' :: ds) = 1 ∧ afterDotV (nm ++ '.' :: 'v' :: ds) = ds ∧
    beforeDotV (nm ++ '.' :: 'v' :: ds) = nm := by
  induction nm with
  | nil => simp [countDotV, afterDotV, beforeDotV, hd]
  | cons c rest ih =>
    have hnot1 : ¬ (c = '.' ∧ rest.head? = some 'v') := by
      rintro ⟨hc, hr⟩
      cases rest with
      | nil => simp at hr
      | cons d r' =>
        simp at hr; subst hc; subst hr
        rw [countDotV_dotv] at hn; omega
    have hrest : countDotV rest = 0 := by rw [← countDotV_cons_of_not c rest hnot1]; exact hn
    have hnot2 : ¬ (c = '.' ∧ (rest ++ '.' :: 'v' :: ds).head? = some 'v') := by
      rintro ⟨hc, hr⟩
      cases rest with
      | nil => simp at hr
      | cons d r' => simp at hr; exact hnot1 ⟨hc, by simp [hr]⟩
    obtain ⟨i1, i2, i3⟩ := ih hrest
    simp only [List.cons_append]
    rw [countDotV_cons_of_not c _ hnot2, afterDotV_cons_of_not c _ hnot2, beforeDotV_cons_of_not c _ hnot2]
    exact ⟨i1, i2, by rw [i3]⟩

theorem isInt_digits (ds : List Char) (hne : ds ≠ []) (h : ∀ c ∈ ds, c.isDigit = true) : isInt ds = true := by
  cases ds with
  | nil => exact absurd rfl hne
  | cons c r =>
    have hc := h c List.mem_cons_self
    have h1 : c ≠ '-' := by intro e; rw [e] at hc; revert hc; decide
    have h2 : c ≠ '+' := by intro e; rw [e] at hc; revert hc; decide
    unfold isInt
    split
    · rename_i heq; simp at heq; exact absurd heq.1 h1
    · rename_i heq; simp at heq; exact absurd heq.1 h2
    · simp only [List.isEmpty_cons, Bool.not_false, Bool.true_and, List.all_eq_true]
      exact h

theorem stripPrefix_append (p x : List Char) : stripPrefix p (p ++ x) = x := by
  unfold stripPrefix
  have : p.isPrefixOf (p ++ x) = true := by
    rw [List.isPrefixOf_iff_prefix]; exact List.prefix_append p x
  simp [this]

/-- The key storage.go makes for a release whose name contains no ".v" is accepted by the
memory driver's Get/Delete, and names that release. -/
theorem makeKey_ok (name : String) (version : Nat) (h : countDotV name.toList = 0) :
    memKeyOk (makeKey name version) = true ∧ memKeyName (makeKey name version) = name := by
  have hds : ∀ c ∈ Nat.toDigits 10 version, c.isDigit = true :=
    fun c hc => Nat.isDigit_of_mem_toDigits (by decide) (by decide) hc
  have hne : Nat.toDigits 10 version ≠ [] := Nat.toDigits_ne_nil
  have hkey : (makeKey name version).toList =
      "sh.helm.release.v1.".toList ++ (name.toList ++ '.' :: 'v' :: Nat.toDigits 10 version) := by
    have h1 : makeKey name version = "sh.helm.release.v1." ++ name ++ ".v" ++ version.repr := rfl
    have h2 : ".v".toList = ['.', 'v'] := by decide
    rw [h1]
    simp only [String.toList_append, Nat.toList_repr, h2, List.append_assoc, List.cons_append, List.nil_append]
  obtain ⟨k1, k2, k3⟩ := key_parts name.toList (Nat.toDigits 10 version) h (countDotV_digits _ hds)
  constructor
  · simp only [memKeyOk, hkey, stripPrefix_append, k1, k2, isInt_digits _ hne hds]
    rfl
  · simp only [memKeyName, hkey, stripPrefix_append, k3, String.ofList_toList]

end Helm.Storage
