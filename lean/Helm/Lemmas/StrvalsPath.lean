import Helm.Model.Strvals
import Helm.Lemmas.Values
/-! Round trip of the documented `--set` escaping: parsing the escaped rendering of a key path
and value stores exactly that value at exactly that path. -/
namespace Helm.Strvals
open Helm.Values

/-- The runes the documentation tells users to escape with a backslash. -/
def special (c : Char) : Bool :=
  c = '.' || c = ',' || c = '=' || c = '[' || c = ']' || c = '\\' || c = '{' || c = '}'

def escape (s : Str) : Str := s.flatMap fun c => if special c then ['\\', c] else [c]

theorem escape_cons (c : Char) (s : Str) :
    escape (c :: s) = (if special c then ['\\', c] else [c]) ++ escape s := by
  simp [escape]

theorem ru_nil (e : Bool) (stop : Char → Bool) (acc : Str) :
    runesUntil e stop [] acc = (acc.reverse, none, []) := by
  rw [runesUntil.eq_def]

theorem ru_stop (e : Bool) (stop : Char → Bool) (c : Char) (rest acc : Str) (h : stop c = true) :
    runesUntil e stop (c :: rest) acc = (acc.reverse, some c, rest) := by
  rw [runesUntil.eq_def]; simp [h]

theorem ru_esc (stop : Char → Bool) (n : Char) (rest acc : Str) (h : stop '\\' = false) :
    runesUntil true stop ('\\' :: n :: rest) acc = runesUntil true stop rest (n :: acc) := by
  rw [runesUntil.eq_def]; simp [h]

theorem ru_plain (e : Bool) (stop : Char → Bool) (c : Char) (rest acc : Str) (h : stop c = false)
    (hc : c ≠ '\\') :
    runesUntil e stop (c :: rest) acc = runesUntil e stop rest (c :: acc) := by
  rw [runesUntil.eq_def]; simp [h, hc]

/-- Reading an escaped string up to an unescaped stop rune returns the original string. -/
theorem runesUntil_escape (stop : Char → Bool) (hs : ∀ x, stop x = true → special x = true)
    (hb : stop '\\' = false) (s : Str) : ∀ (acc : Str) (c : Char) (rest : Str), stop c = true →
    runesUntil true stop (escape s ++ c :: rest) acc = (acc.reverse ++ s, some c, rest) := by
  induction s with
  | nil => intro acc c rest hc; simp [escape, ru_stop _ _ _ _ _ hc]
  | cons x s ih =>
    intro acc c rest hc
    rw [escape_cons]
    by_cases hx : special x = true
    · simp only [hx, if_true, List.cons_append, List.nil_append]
      rw [ru_esc _ _ _ _ hb, ih (x :: acc) c rest hc]
      simp
    · have hsx : stop x = false := by
        cases h : stop x with
        | false => rfl
        | true => exact absurd (hs x h) hx
      have hxb : x ≠ '\\' := by
        intro h; subst h; simp [special] at hx
      simp only [hx, Bool.false_eq_true, if_false, List.cons_append, List.nil_append]
      rw [ru_plain _ _ _ _ _ hsx hxb, ih (x :: acc) c rest hc]
      simp

theorem runesUntil_escape_eof (stop : Char → Bool) (hs : ∀ x, stop x = true → special x = true)
    (hb : stop '\\' = false) (s : Str) : ∀ (acc : Str),
    runesUntil true stop (escape s) acc = (acc.reverse ++ s, none, []) := by
  induction s with
  | nil => intro acc; simp [escape, ru_nil]
  | cons x s ih =>
    intro acc
    rw [escape_cons]
    by_cases hx : special x = true
    · simp only [hx, if_true, List.cons_append, List.nil_append]
      rw [ru_esc _ _ _ _ hb, ih (x :: acc)]
      simp
    · have hsx : stop x = false := by
        cases h : stop x with
        | false => rfl
        | true => exact absurd (hs x h) hx
      have hxb : x ≠ '\\' := by
        intro h; subst h; simp [special] at hx
      simp only [hx, Bool.false_eq_true, if_false, List.cons_append, List.nil_append]
      rw [ru_plain _ _ _ _ _ hsx hxb, ih (x :: acc)]
      simp

/-! ### paths -/

/-- Store `v` at key path `ks`, creating intermediate maps (and replacing non-maps, which the
`compat` guard excludes -- there the real parser fails). -/
def setPath : List Str → Tbl → Val → Tbl
  | [], t, _ => t
  | [k], t, v => t.set (String.ofList k) v
  | k :: p, t, v =>
    t.set (String.ofList k) (.tbl (setPath p
      (match t.get? (String.ofList k) with
       | some (.tbl i) => i
       | _ => .nil) v))

/-- Every proper prefix of the path is absent from `t` or a map (otherwise Go's type assertion
panics, is recovered, and the parse fails). -/
def compat : List Str → Tbl → Prop
  | [], _ => True
  | [_], _ => True
  | k :: p, t =>
    match t.get? (String.ofList k) with
    | none => True
    | some (.tbl i) => compat p i
    | some _ => False

/-- `k1.k2.….kn=v` with the documented escaping. -/
def pathExpr : List Str → Str → Str
  | [], v => '=' :: escape v
  | [k], v => escape k ++ '=' :: escape v
  | k :: p, v => escape k ++ '.' :: pathExpr p v

theorem set_isEmpty (t : Tbl) (k : String) (v : Val) : (t.set k v).isEmpty = false := by
  cases t with
  | nil => rfl
  | cons k' w r => simp only [Tbl.set]; split <;> rfl

theorem setPath_isEmpty (ks : List Str) (hk : ks ≠ []) (t : Tbl) (v : Val) :
    (setPath ks t v).isEmpty = false := by
  cases ks with
  | nil => exact absurd rfl hk
  | cons k p =>
    cases p with
    | nil => exact set_isEmpty _ _ _
    | cons k' p' => exact set_isEmpty _ _ _

theorem keyStop_special (m : Mode) (x : Char) (h : keyStop m x = true) : special x = true := by
  cases m <;> simp only [keyStop, Bool.or_eq_true, decide_eq_true_eq] at h <;>
    simp only [special, Bool.or_eq_true, decide_eq_true_eq] <;> grind

theorem keyStop_bs (m : Mode) : keyStop m '\\' = false := by
  cases m <;> simp [keyStop]

theorem reader_nil (m : Mode) (hm : m = .typed ∨ m = .string) : reader m [] = .str "" := by
  rcases hm with rfl | rfl <;> rfl

theorem head_escape_ne_brace (c : Char) (v : Str) :
    ∃ x r, escape (c :: v) = x :: r ∧ x ≠ '{' := by
  rw [escape_cons]
  by_cases hx : special c = true
  · exact ⟨'\\', c :: escape v, by simp [hx], by decide⟩
  · refine ⟨c, escape v, by simp [hx], ?_⟩
    intro h; subst h; simp [special] at hx

theorem rhs_escape (m : Mode) (hm : m = .typed ∨ m = .string) (v : Str) :
    rhs m (escape v) = (some (reader m v), (if v = [] then some E.eof else none), []) := by
  cases v with
  | nil =>
    rw [reader_nil m hm]
    rcases hm with rfl | rfl <;> simp [rhs, escape, valList]
  | cons c v' =>
    obtain ⟨x, r, hx, hne⟩ := head_escape_ne_brace c v'
    have hvl : valList m (escape (c :: v')) = ⟨.nil, none, true, escape (c :: v')⟩ := by
      rw [hx]; unfold valList; split
      · rename_i h; cases h
      · rename_i h; cases h; exact absurd rfl hne
      · rfl
    have hru := runesUntil_escape_eof (fun c => decide (c = ',')) (by intro x h; simp at h; subst h; decide)
      (by decide) (c :: v') []
    rcases hm with rfl | rfl <;> simp [rhs, hvl, hru]

/-- Unfolding of `key` when the key segment ends at a dot. -/
theorem key_dot (m : Mode) (n : Nat) (data : Tbl) (level : Nat) (s k rest : Str)
    (h : runesUntil (esc m) (keyStop m) s [] = (k, some '.', rest))
    (hl : ¬ level + 1 > Helm.Gen.maxNestedNameLevel) :
    key m (n + 1) data level s =
      match (match data.get? (String.ofList k) with
              | none => some Tbl.nil
              | some (.tbl t) => some t
              | some _ => none) with
      | none => ⟨data, some .err, rest⟩
      | some inner =>
        if (key m n inner (level + 1) rest).err.isNone && (key m n inner (level + 1) rest).data.isEmpty then
          ⟨data, some .err, (key m n inner (level + 1) rest).rest⟩
        else if !(key m n inner (level + 1) rest).data.isEmpty then
          ⟨set data k (.tbl (key m n inner (level + 1) rest).data), (key m n inner (level + 1) rest).err,
            (key m n inner (level + 1) rest).rest⟩
        else ⟨data, (key m n inner (level + 1) rest).err, (key m n inner (level + 1) rest).rest⟩ := by
  rw [key, h]
  simp only [hl, if_false]
  split
  all_goals (try (rename_i heq; simp at heq; done))
  rename_i heq
  cases heq
  rfl

/-- One `key` call on the escaped rendering of a path stores the value at that path. -/
theorem key_path (m : Mode) (hm : m = .typed ∨ m = .string) (v : Str) :
    ∀ (ks : List Str) (fuel : Nat) (data : Tbl) (level : Nat),
      ks ≠ [] → (∀ k ∈ ks, k ≠ []) → ks.length ≤ fuel →
      level + ks.length ≤ Helm.Gen.maxNestedNameLevel + 1 → compat ks data →
      key m fuel data level (pathExpr ks v) =
        ⟨setPath ks data (reader m v), (if v = [] then some E.eof else none), []⟩ := by
  have hesc : esc m = true := by rcases hm with rfl | rfl <;> rfl
  intro ks
  induction ks with
  | nil => intro _ _ _ h; exact absurd rfl h
  | cons k p ih =>
    intro fuel data level _ hne hfuel hlevel hcompat
    have hk : k ≠ [] := hne k List.mem_cons_self
    cases fuel with
    | zero => simp at hfuel
    | succ n =>
      cases p with
      | nil =>
        simp only [pathExpr]
        rw [key, hesc, runesUntil_escape (keyStop m) (keyStop_special m) (keyStop_bs m) k [] '=' (escape v)
          (by rcases hm with rfl | rfl <;> decide)]
        simp only [List.reverse_nil, List.nil_append]
        rw [rhs_escape m hm v]
        simp [set, setPath, hk]
      | cons k' p' =>
        have hlen : (k' :: p').length ≤ n := by simp at hfuel ⊢; omega
        have hlev : level + 1 ≤ Helm.Gen.maxNestedNameLevel := by simp at hlevel; omega
        simp only [pathExpr]
        have hnotgt : ¬ (level + 1 > Helm.Gen.maxNestedNameLevel) := by omega
        have hru : runesUntil (esc m) (keyStop m) (escape k ++ '.' :: pathExpr (k' :: p') v) [] =
            (k, some '.', pathExpr (k' :: p') v) := by
          rw [hesc, runesUntil_escape (keyStop m) (keyStop_special m) (keyStop_bs m) k [] '.' _
            (by rcases hm with rfl | rfl <;> decide)]
          simp
        rw [key_dot m n data level _ k _ hru hnotgt]
        -- the existing value at k is absent or a map
        have hinner : ∃ inner, (match data.get? (String.ofList k) with
              | none => some Tbl.nil
              | some (.tbl t) => some t
              | some _ => none) = some inner ∧
            inner = (match data.get? (String.ofList k) with
              | some (.tbl i) => i
              | _ => .nil) ∧ compat (k' :: p') inner := by
          simp only [compat] at hcompat
          cases hg : data.get? (String.ofList k) with
          | none => exact ⟨.nil, rfl, rfl, by cases p' <;> simp [compat]⟩
          | some w =>
            rw [hg] at hcompat
            cases w with
            | tbl t => exact ⟨t, rfl, rfl, hcompat⟩
            | _ => simp at hcompat
        obtain ⟨inner, hm1, hm2, hc⟩ := hinner
        rw [hm1]
        simp only
        have hrec := ih n inner (level + 1) (by simp) (fun x hx => hne x (List.mem_cons_of_mem _ hx))
          hlen (by simp at hlevel ⊢; omega) hc
        rw [hrec]
        have hne' : (setPath (k' :: p') inner (reader m v)).isEmpty = false :=
          setPath_isEmpty _ (by simp) _ _
        simp only [hne', Bool.and_false, Bool.false_eq_true, if_false, Bool.not_false, if_true]
        subst hm2
        simp [set, hk, setPath]

theorem pathExpr_length (ks : List Str) (v : Str) : ks.length ≤ (pathExpr ks v).length := by
  induction ks with
  | nil => simp
  | cons k p ih =>
    cases p with
    | nil => simp [pathExpr]; omega
    | cons k' p' => simp only [pathExpr, List.length_append, List.length_cons] at ih ⊢; omega

theorem key_eof (m : Mode) (n : Nat) (data : Tbl) (level : Nat) :
    key m (n + 1) data level [] = ⟨data, some .eof, []⟩ := by
  rw [key, ru_nil]; rfl

/-- `ParseInto` / `ParseIntoString` on the escaped rendering of (path, value). -/
theorem parseInto_path (m : Mode) (hm : m = .typed ∨ m = .string) (ks : List Str) (v : Str)
    (dest : Tbl) (hks : ks ≠ []) (hne : ∀ k ∈ ks, k ≠ [])
    (hlen : ks.length ≤ Helm.Gen.maxNestedNameLevel + 1) (hc : compat ks dest) :
    parseInto m (pathExpr ks v) dest = (setPath ks dest (reader m v), none) := by
  unfold parseInto
  have hk := key_path m hm v ks ((pathExpr ks v).length + 1) dest 0 hks hne
    (by have := pathExpr_length ks v; omega) (by omega) hc
  rw [show (pathExpr ks v).length + 2 = ((pathExpr ks v).length + 1) + 1 from rfl, parseLoop]
  simp only [hk]
  by_cases hv : v = []
  · simp [hv]
  · simp only [hv, if_false]
    rw [parseLoop]
    simp [key_eof]

/-! ### what `setPath` does and does not touch -/

def lookupStr (t : Tbl) (p : List Str) : Option Val := lookupPath t (p.map String.ofList)

theorem ofList_inj {a b : Str} (h : String.ofList a = String.ofList b) : a = b := by
  have := congrArg String.toList h
  simpa using this

theorem setPath_hit (ks : List Str) : ∀ (t : Tbl) (v : Val), ks ≠ [] →
    lookupStr (setPath ks t v) ks = some v := by
  induction ks with
  | nil => intro _ _ h; exact absurd rfl h
  | cons k p ih =>
    intro t v _
    cases p with
    | nil => simp [lookupStr, setPath, lookupPath, Tbl.get?_set_same]
    | cons k' p' =>
      simp only [lookupStr, List.map_cons, setPath]
      rw [lookupPath_cons2, Tbl.get?_set_same]
      exact ih _ v (by simp)

/-- Two paths part ways at some position (neither is a prefix of the other). -/
def diverge : List Str → List Str → Prop
  | k :: ks, x :: q => k ≠ x ∨ (k = x ∧ diverge ks q)
  | _, _ => False

/-- Frame: a path that parts ways with the one being set reads the same before and after. -/
theorem setPath_frame (ks : List Str) : ∀ (q : List Str) (t : Tbl) (v : Val), diverge ks q →
    compat ks t → lookupStr (setPath ks t v) q = lookupStr t q := by
  induction ks with
  | nil => intro q t v h; simp [diverge] at h
  | cons k p ih =>
    intro q t v hd hc
    cases q with
    | nil => simp [diverge] at hd
    | cons x q' =>
      simp only [diverge] at hd
      have hget : ∀ (w : Val), k ≠ x → (t.set (String.ofList k) w).get? (String.ofList x) = t.get? (String.ofList x) :=
        fun w hkx => Tbl.get?_set_other _ _ _ _ (fun h => hkx (ofList_inj h))
      cases p with
      | nil =>
        rcases hd with hkx | ⟨_, hd'⟩
        · simp only [lookupStr, List.map_cons, setPath]
          cases q' with
          | nil => simp [lookupPath, hget v hkx]
          | cons y q'' => simp only [List.map_cons]; rw [lookupPath_cons2, lookupPath_cons2, hget v hkx]
        · simp [diverge] at hd'
      | cons k' p' =>
        rcases hd with hkx | ⟨hkx, hd'⟩
        · simp only [lookupStr, List.map_cons, setPath]
          cases q' with
          | nil => simp [lookupPath, hget _ hkx]
          | cons y q'' => simp only [List.map_cons]; rw [lookupPath_cons2, lookupPath_cons2, hget _ hkx]
        · subst hkx
          cases q' with
          | nil => simp [diverge] at hd'
          | cons y q'' =>
            simp only [lookupStr, List.map_cons, setPath]
            rw [lookupPath_cons2, lookupPath_cons2, Tbl.get?_set_same]
            simp only [compat] at hc
            cases hg : t.get? (String.ofList k) with
            | none =>
              -- nothing was there: both sides read nothing below k ... the new map holds only ks
              simp only
              have := ih (y :: q'') .nil v hd' (by cases p' <;> simp [compat])
              simp only [lookupStr, List.map_cons] at this
              rw [this]
              cases q'' <;> simp [lookupPath]
            | some w =>
              rw [hg] at hc
              cases w with
              | tbl i =>
                simp only
                have := ih (y :: q'') i v hd' hc
                simpa [lookupStr] using this
              | _ => simp at hc

end Helm.Strvals
