/-
Lemmas about the .helmignore model: what the glob matcher means for literal and `*suffix`
patterns, evaluation of negation-free rule sets, directories hiding their contents.
-/
import Helm.Model.Ignore

namespace Helm.Ignore

/-- no `*` and no `?` -/
def Literal (p : List Char) : Prop := ∀ c ∈ p, c ≠ '*' ∧ c ≠ '?'

theorem glob_literal (p : List Char) (hp : Literal p) (n : List Char) : glob p n = decide (p = n) := by
  induction p generalizing n with
  | nil => cases n <;> simp [glob]
  | cons c p ih =>
    have hc := hp c List.mem_cons_self
    have hp' : Literal p := fun x hx => hp x (List.mem_cons_of_mem _ hx)
    unfold glob
    simp only [hc.1, if_false]
    cases n with
    | nil => simp
    | cons d n' =>
      simp only [hc.2, if_false, ih hp' n']
      by_cases h : c = d <;> simp [h]

theorem starAny_iff (f : List Char → Bool) (n : List Char) :
    starAny f n = true ↔ ∃ pre suf, n = pre ++ suf ∧ '/' ∉ pre ∧ f suf = true := by
  induction n with
  | nil =>
    simp only [starAny]
    constructor
    · intro h; exact ⟨[], [], rfl, by simp, h⟩
    · rintro ⟨pre, suf, h, _, hf⟩
      have : suf = [] := by
        cases suf with
        | nil => rfl
        | cons a t => cases pre <;> cases h
      rw [this] at hf; exact hf
  | cons c n ih =>
    simp only [starAny, Bool.or_eq_true, Bool.and_eq_true, bne_iff_ne, ne_eq, ih]
    constructor
    · rintro (h | ⟨hc, pre, suf, hn, hp, hf⟩)
      · exact ⟨[], c :: n, rfl, by simp, h⟩
      · exact ⟨c :: pre, suf, by simp [hn], by simp [hp, Ne.symm hc], hf⟩
    · rintro ⟨pre, suf, hn, hp, hf⟩
      cases pre with
      | nil => left; simp at hn; rw [hn]; exact hf
      | cons a pre' =>
        right
        simp only [List.cons_append, List.cons.injEq] at hn
        simp only [List.mem_cons, not_or] at hp
        exact ⟨by rw [hn.1]; exact Ne.symm hp.1, pre', suf, hn.2, hp.2, hf⟩

/-- `*ext` (ext literal) matches exactly the names that end in ext, the rest having no `/` -/
theorem glob_star_suffix (ext : List Char) (he : Literal ext) (n : List Char) :
    glob ('*' :: ext) n = true ↔ ∃ pre, n = pre ++ ext ∧ '/' ∉ pre := by
  unfold glob
  simp only [if_true]
  rw [starAny_iff]
  constructor
  · rintro ⟨pre, suf, hn, hp, hf⟩
    rw [glob_literal ext he] at hf
    have : ext = suf := by simpa using hf
    exact ⟨pre, by rw [hn, this], hp⟩
  · rintro ⟨pre, hn, hp⟩
    exact ⟨pre, ext, hn, hp, by rw [glob_literal ext he]; simp⟩

/-! ### rule sets without negation -/

/-- the rule applies to this kind of entry and matches it -/
def hits (r : Rule) (path : List Char) (isDir : Bool) : Bool := (!r.mustDir || isDir) && matchRule r path

theorem ignoreLoop_positive (path : List Char) (isDir : Bool) (rules : List Rule)
    (hp : ∀ r ∈ rules, r.negate = false) :
    ignoreLoop path isDir rules = rules.any (fun r => hits r path isDir) := by
  induction rules with
  | nil => rfl
  | cons r rs ih =>
    have h1 := hp r List.mem_cons_self
    have ih' := ih (fun x hx => hp x (List.mem_cons_of_mem _ hx))
    unfold ignoreLoop
    simp only [h1, Bool.false_eq_true, if_false, List.any_cons, hits, ih']
    cases r.mustDir <;> cases isDir <;> cases matchRule r path <;> simp

/-- Without negated rules an entry is ignored exactly when some rule hits it: the order of the
rules is immaterial. -/
theorem ignore_positive_iff (rules : List Rule) (hp : ∀ r ∈ rules, r.negate = false)
    (path : List Char) (isDir : Bool) (hne : path ≠ [] ∧ path ≠ ['.'] ∧ path ≠ ['.', '/']) :
    ignore rules path isDir = true ↔ ∃ r ∈ rules, hits r path isDir = true := by
  unfold ignore
  have : (path.isEmpty || decide (path = ['.']) || decide (path = ['.', '/'])) = false := by
    cases path with
    | nil => exact absurd rfl hne.1
    | cons a t => simp [hne.2.1, hne.2.2]
  rw [this]
  simp only [Bool.false_eq_true, if_false]
  rw [ignoreLoop_positive path isDir rules hp, List.any_eq_true]

theorem ignore_positive_perm (r1 r2 : List Rule) (hperm : r1.Perm r2) (hp : ∀ r ∈ r1, r.negate = false)
    (path : List Char) (isDir : Bool) : ignore r1 path isDir = ignore r2 path isDir := by
  unfold ignore
  split
  · rfl
  · rw [ignoreLoop_positive path isDir r1 hp,
      ignoreLoop_positive path isDir r2 (fun r hr => hp r (hperm.symm.subset hr))]
    rw [Bool.eq_iff_iff, List.any_eq_true, List.any_eq_true]
    constructor
    · rintro ⟨r, hr, h⟩; exact ⟨r, hperm.subset hr, h⟩
    · rintro ⟨r, hr, h⟩; exact ⟨r, hperm.symm.subset hr, h⟩

/-! ### the walk -/

theorem ancestorsAux_mem (acc d rest : List Char) :
    (acc.reverse ++ d) ∈ ancestorsAux acc (d ++ '/' :: rest) := by
  induction d generalizing acc with
  | nil =>
    simp only [List.nil_append, List.append_nil, ancestorsAux, if_true]
    exact List.mem_cons_self
  | cons c d ih =>
    simp only [List.cons_append, ancestorsAux]
    have := ih (c :: acc)
    simp only [List.reverse_cons, List.append_assoc, List.singleton_append] at this
    split
    · exact List.mem_cons_of_mem _ this
    · exact this

/-- every directory above a path is among its ancestors -/
theorem mem_ancestors (d rest : List Char) : d ∈ ancestors (d ++ '/' :: rest) := by
  have := ancestorsAux_mem [] d rest
  simpa [ancestors] using this

/-- An ignored directory hides everything below it. -/
theorem ignored_dir_hides (rules : List Rule) (d rest : List Char) (h : ignore rules d true = true) :
    loaded rules (d ++ '/' :: rest) = false := by
  unfold loaded
  have hm := mem_ancestors d rest
  have : (ancestors (d ++ '/' :: rest)).all (fun a => !ignore rules a true) = false := by
    rw [List.all_eq_false]
    exact ⟨d, hm, by simp [h]⟩
  simp [this]

/-- What is loaded is neither ignored itself nor below an ignored directory. -/
theorem loaded_iff (rules : List Rule) (p : List Char) :
    loaded rules p = true ↔ ignore rules p false = false ∧ ∀ a ∈ ancestors p, ignore rules a true = false := by
  unfold loaded
  simp only [Bool.and_eq_true, List.all_eq_true, Bool.not_eq_true']
  constructor
  · rintro ⟨h1, h2⟩; exact ⟨h2, h1⟩
  · rintro ⟨h1, h2⟩; exact ⟨h2, h1⟩

theorem loadDir_sound (rules : List Rule) (files : List (List Char)) (p : List Char) :
    p ∈ loadDir rules files ↔ p ∈ files ∧ loaded rules p = true := by
  unfold loadDir
  exact List.mem_filter

end Helm.Ignore
