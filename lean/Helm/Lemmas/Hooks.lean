/-
Lemmas about the hook model: `hookByWeight` is a strict weak order, the stable insertion sort
sorts, permutes and is stable; the shape of the event trace of `runHooks`.
-/
import Helm.Model.Hooks

namespace Helm.Hooks

/-! ### the order -/

def hookLe (a b : Hook) : Prop := hookLt b a = false

theorem hookLe_iff (a b : Hook) :
    hookLe a b ↔ a.weight < b.weight ∨ (a.weight = b.weight ∧ a.name ≤ b.name) := by
  unfold hookLe hookLt
  by_cases h : b.weight = a.weight
  · rw [if_pos h]
    simp only [decide_eq_false_iff_not, String.not_lt]
    constructor
    · intro hn; exact Or.inr ⟨h.symm, hn⟩
    · rintro (hl | ⟨_, hn⟩)
      · omega
      · exact hn
  · rw [if_neg h]
    simp only [decide_eq_false_iff_not]
    constructor
    · intro hn; left; omega
    · rintro (hl | ⟨he, _⟩)
      · omega
      · exact absurd he.symm h

theorem hookLe_refl (a : Hook) : hookLe a a := by
  rw [hookLe_iff]; exact Or.inr ⟨rfl, String.le_refl _⟩

theorem hookLe_trans {a b c : Hook} (h1 : hookLe a b) (h2 : hookLe b c) : hookLe a c := by
  rw [hookLe_iff] at *
  rcases h1 with h1 | ⟨e1, n1⟩ <;> rcases h2 with h2 | ⟨e2, n2⟩
  · left; omega
  · left; omega
  · left; omega
  · right; exact ⟨by omega, String.le_trans n1 n2⟩

theorem hookLe_total (a b : Hook) : hookLe a b ∨ hookLe b a := by
  rw [hookLe_iff, hookLe_iff]
  by_cases h : a.weight = b.weight
  · rcases String.le_total a.name b.name with hn | hn
    · exact Or.inl (Or.inr ⟨h, hn⟩)
    · exact Or.inr (Or.inr ⟨h.symm, hn⟩)
  · by_cases hl : a.weight < b.weight
    · exact Or.inl (Or.inl hl)
    · exact Or.inr (Or.inl (by omega))

/-- strictly smaller implies not larger -/
theorem hookLe_of_lt {a b : Hook} (h : hookLt a b = true) : hookLe a b := by
  rcases hookLe_total a b with h1 | h1
  · exact h1
  · unfold hookLe at h1; rw [h] at h1; cases h1

/-! ### the stable sort -/

theorem insertHook_perm (x : Hook) (l : List Hook) : (insertHook x l).Perm (x :: l) := by
  induction l with
  | nil => exact List.Perm.refl _
  | cons y ys ih =>
    unfold insertHook
    split
    · exact (List.Perm.cons y ih).trans (List.Perm.swap x y ys)
    · exact List.Perm.refl _

theorem sortHooks_perm (l : List Hook) : (sortHooks l).Perm l := by
  induction l with
  | nil => exact List.Perm.refl _
  | cons x xs ih => exact (insertHook_perm x _).trans (List.Perm.cons x ih)

theorem insertHook_sorted (x : Hook) (l : List Hook) (h : l.Pairwise hookLe) :
    (insertHook x l).Pairwise hookLe := by
  induction l with
  | nil => simp [insertHook]
  | cons y ys ih =>
    unfold insertHook
    rw [List.pairwise_cons] at h
    split
    · rename_i hlt
      rw [List.pairwise_cons]
      refine ⟨?_, ih h.2⟩
      intro z hz
      rcases List.mem_cons.mp ((insertHook_perm x ys).subset hz) with hzx | hzy
      · subst hzx; exact hookLe_of_lt hlt
      · exact h.1 z hzy
    · rename_i hlt
      have hxy : hookLe x y := by simpa [hookLe] using hlt
      rw [List.pairwise_cons]
      refine ⟨?_, List.pairwise_cons.mpr h⟩
      intro z hz
      rcases List.mem_cons.mp hz with hzy | hzy
      · subst hzy; exact hxy
      · exact hookLe_trans hxy (h.1 z hzy)

/-- the executing hooks are in ascending weight, ties by name -/
theorem sortHooks_sorted (l : List Hook) : (sortHooks l).Pairwise hookLe := by
  induction l with
  | nil => exact List.Pairwise.nil
  | cons x xs ih => exact insertHook_sorted x _ ih

/-- same weight and name -/
def sameKey (a b : Hook) : Bool := a.weight = b.weight && a.name = b.name

theorem insertHook_filter (x : Hook) (l : List Hook) (k : Hook) :
    (insertHook x l).filter (sameKey k) = (x :: l).filter (sameKey k) := by
  induction l with
  | nil => rfl
  | cons y ys ih =>
    unfold insertHook
    split
    · rename_i hlt
      -- y < x: they do not have the same key, so at most one of them passes the filter
      have hne : ¬ (sameKey k y = true ∧ sameKey k x = true) := by
        rintro ⟨h1, h2⟩
        simp only [sameKey, Bool.and_eq_true, decide_eq_true_eq] at h1 h2
        unfold hookLt at hlt
        rw [← h1.1, ← h1.2, ← h2.1, ← h2.2] at hlt
        simp at hlt
      simp only [List.filter_cons, ih]
      by_cases hy : sameKey k y = true <;> by_cases hx : sameKey k x = true
      · exact absurd ⟨hy, hx⟩ hne
      · simp [hy, hx]
      · simp [hy, hx]
      · simp [hy, hx]
    · rfl

/-- the sort is stable: hooks of equal weight and name keep their order (which is the order of
the release's hook list: by kind) -/
theorem sortHooks_stable (l : List Hook) (k : Hook) :
    (sortHooks l).filter (sameKey k) = l.filter (sameKey k) := by
  induction l with
  | nil => rfl
  | cons x xs ih =>
    unfold sortHooks
    rw [insertHook_filter, List.filter_cons, List.filter_cons, ih]

/-! ### the trace of the loop -/

/-- what one successful hook contributes: delete-before-creation if the policy says so, then
create, then watch -/
def block (h : Hook) : List HEv := delIf h .before ++ [.create h.key, .watch h.key]

def createOf : HEv → Option String
  | .create n => some n
  | .del _ => none
  | .watch _ => none
  | .res => none

theorem creates_delIf (h : Hook) (p : Policy) : (delIf h p).filterMap createOf = [] := by
  unfold delIf; split <;> simp [createOf]

theorem creates_flatMap_delIf (l : List Hook) (p : Policy) : (l.flatMap (delIf · p)).filterMap createOf = [] := by
  induction l with
  | nil => rfl
  | cons h t ih => simp [List.flatMap_cons, List.filterMap_append, creates_delIf, ih]

theorem creates_watch (n : String) : [HEv.watch n].filterMap createOf = [] := rfl

theorem creates_pre (h : Hook) : (delIf h .before ++ [HEv.create h.key]).filterMap createOf = [h.key] := by
  simp [List.filterMap_append, creates_delIf, createOf]

private theorem not_mem_exDel_before (ex : List String) (h : Hook) (hb : hasPol h .before = true) :
    (exDel ex h .before).contains h.key = false := by
  unfold exDel
  simp [hb]

/-- every hook succeeds and carries before-hook-creation (the default): the trace is the
concatenation of the blocks in order, then the succeeded-policy deletions in reverse order -/
theorem run_all_succeed (fails : String → Bool) (ex : List String) (done todo : List Hook)
    (hf : ∀ h ∈ todo, fails h.name = false) (hb : ∀ h ∈ todo, hasPol h .before = true) :
    (runHooks fails ex done todo).ok = true ∧
    (runHooks fails ex done todo).evs =
      todo.flatMap block ++ (done ++ todo).reverse.flatMap (delIf · .succeeded) := by
  induction todo generalizing ex done with
  | nil => simp [runHooks]
  | cons h rest ih =>
    have h1 := not_mem_exDel_before ex h (hb h List.mem_cons_self)
    have h2 := hf h List.mem_cons_self
    rw [runHooks]
    simp only [h1, h2, Bool.false_eq_true, if_false]
    obtain ⟨i1, i2⟩ := ih (h.key :: exDel ex h .before) (done ++ [h])
      (fun x hx => hf x (List.mem_cons_of_mem _ hx)) (fun x hx => hb x (List.mem_cons_of_mem _ hx))
    refine ⟨i1, ?_⟩
    rw [i2]
    simp [block, List.flatMap_cons, List.append_assoc]

/-- the hooks before `h` succeed, `h`'s watch fails: the trace stops after `h`; the failed hook
is deleted if its policy says hook-failed, the earlier ones if theirs says hook-succeeded; no
later hook is created -/
theorem run_first_failure (fails : String → Bool) (ex : List String) (done a b : List Hook) (h : Hook)
    (hf : ∀ x ∈ a, fails x.name = false) (hh : fails h.name = true)
    (hb : ∀ x ∈ a ++ [h], hasPol x .before = true) :
    (runHooks fails ex done (a ++ h :: b)).ok = false ∧
    (runHooks fails ex done (a ++ h :: b)).evs =
      a.flatMap block ++ block h ++ delIf h .failed ++ (done ++ a).flatMap (delIf · .succeeded) := by
  induction a generalizing ex done with
  | nil =>
    have h1 := not_mem_exDel_before ex h (hb h (by simp))
    rw [List.nil_append, runHooks]
    simp only [h1, hh, Bool.false_eq_true, if_false, if_true]
    simp [block, List.append_assoc]
  | cons x rest ih =>
    have h1 := not_mem_exDel_before ex x (hb x (by simp))
    have h2 := hf x List.mem_cons_self
    rw [List.cons_append, runHooks]
    simp only [h1, h2, Bool.false_eq_true, if_false]
    obtain ⟨i1, i2⟩ := ih (x.key :: exDel ex x .before) (done ++ [x])
      (fun y hy => hf y (List.mem_cons_of_mem _ hy))
      (fun y hy => hb y (by simp at hy ⊢; rcases hy with hy | hy <;> simp [hy]))
    refine ⟨i1, ?_⟩
    rw [i2]
    simp [block, List.flatMap_cons, List.append_assoc]

/-- without any hypothesis on policies: the hooks created are a prefix of the sorted list -/
theorem run_creates_prefix (fails : String → Bool) (ex : List String) (done todo : List Hook) :
    (runHooks fails ex done todo).evs.filterMap createOf <+: todo.map (·.key) := by
  induction todo generalizing ex done with
  | nil => simp [runHooks, creates_flatMap_delIf]
  | cons h rest ih =>
    rw [runHooks]
    dsimp only
    split
    · rw [creates_pre]; simp
    · split
      · dsimp only
        rw [List.append_assoc, List.append_assoc, List.filterMap_append, creates_pre, List.filterMap_append,
          List.filterMap_append, creates_delIf, creates_flatMap_delIf, creates_watch]
        simp
      · dsimp only
        rw [List.append_assoc, List.filterMap_append, creates_pre, List.filterMap_append]
        have := ih (h.key :: exDel ex h .before) (done ++ [h])
        simp only [List.filterMap_cons, createOf, List.filterMap_nil, List.nil_append, List.map_cons,
          List.singleton_append]
        exact List.cons_prefix_cons.mpr ⟨rfl, this⟩

/-- success means every hook was created, in order, and none failed -/
theorem run_ok (fails : String → Bool) (ex : List String) (done todo : List Hook)
    (hok : (runHooks fails ex done todo).ok = true) :
    (runHooks fails ex done todo).evs.filterMap createOf = todo.map (·.key) ∧
    ∀ h ∈ todo, fails h.name = false := by
  induction todo generalizing ex done with
  | nil => simp [runHooks, creates_flatMap_delIf]
  | cons h rest ih =>
    rw [runHooks] at hok ⊢
    simp only at hok ⊢
    split at hok
    · simp at hok
    · rename_i hc
      split at hok
      · simp at hok
      · rename_i hf
        simp only [hc, hf, Bool.false_eq_true, if_false]
        obtain ⟨i1, i2⟩ := ih (h.key :: exDel ex h .before) (done ++ [h]) hok
        constructor
        · simp only [List.filterMap_append, creates_delIf, List.nil_append, List.map_cons]
          simp only [List.filterMap_cons, createOf, List.filterMap_nil, List.singleton_append, i1]
        · intro x hx
          rcases List.mem_cons.mp hx with hx | hx
          · subst hx; simpa using hf
          · exact i2 x hx

/-- one hook at a time: a create is followed by the watch of the same hook (or is the last
event: the create was refused); nothing else happens while a hook runs -/
def seqOk : Option String → List HEv → Bool
  | _, [] => true
  | none, .create n :: r => seqOk (some n) r
  | none, .del _ :: r => seqOk none r
  | none, .res :: r => seqOk none r
  | some n, .watch m :: r => n = m && seqOk none r
  | _, _ => false

theorem seqOk_delIf (h : Hook) (p : Policy) (r : List HEv) : seqOk none (delIf h p ++ r) = seqOk none r := by
  unfold delIf; split <;> simp [seqOk]

theorem seqOk_dels (l : List Hook) (p : Policy) (r : List HEv) :
    seqOk none (l.flatMap (delIf · p) ++ r) = seqOk none r := by
  induction l with
  | nil => rfl
  | cons h t ih =>
    simp only [List.flatMap_cons, List.append_assoc]
    rw [seqOk_delIf]
    exact ih

theorem run_sequential (fails : String → Bool) (ex : List String) (done todo : List Hook) :
    seqOk none (runHooks fails ex done todo).evs = true := by
  induction todo generalizing ex done with
  | nil =>
    rw [runHooks]
    have := seqOk_dels done.reverse .succeeded []
    simpa [seqOk] using this
  | cons h rest ih =>
    rw [runHooks]
    dsimp only
    split
    · dsimp only; rw [seqOk_delIf]; simp [seqOk]
    · split
      · dsimp only
        simp only [List.append_assoc]
        rw [seqOk_delIf]
        simp only [List.singleton_append, seqOk, List.cons_append, List.nil_append, decide_true, Bool.true_and]
        rw [seqOk_delIf]
        have := seqOk_dels done .succeeded []
        simpa [seqOk] using this
      · dsimp only
        simp only [List.append_assoc]
        rw [seqOk_delIf]
        simp only [List.singleton_append, seqOk, List.cons_append, List.nil_append, decide_true, Bool.true_and]
        exact ih _ _

end Helm.Hooks
