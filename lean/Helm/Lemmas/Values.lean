import Helm.Model.Values
/-! Key-level refinement lemmas for MergeMaps and coalesceTables. -/
namespace Helm.Values

/-- List-like induction for tables (the `induction` tactic refuses mutual inductives). -/
theorem Tbl.ind {motive : Tbl → Prop} (nil : motive .nil)
    (cons : ∀ k v r, motive r → motive (.cons k v r)) : ∀ t, motive t
  | .nil => nil
  | .cons k v r => cons k v r (Tbl.ind nil cons r)

namespace Tbl

@[simp] theorem get?_nil (x : String) : Tbl.nil.get? x = none := rfl

theorem get?_cons (k : String) (v : Val) (r : Tbl) (x : String) :
    (Tbl.cons k v r).get? x = if k = x then some v else r.get? x := rfl

theorem get?_set_same (t : Tbl) (k : String) (v : Val) : (t.set k v).get? k = some v := by
  induction t using Tbl.ind with
  | nil => simp [set, get?]
  | cons k' w r ih =>
    simp only [set]
    split
    · rename_i h; simp [get?, h]
    · rename_i h; simp [get?, h, ih]

theorem get?_set_other (t : Tbl) (k x : String) (v : Val) (h : k ≠ x) :
    (t.set k v).get? x = t.get? x := by
  induction t using Tbl.ind with
  | nil => simp [set, get?, h]
  | cons k' w r ih =>
    simp only [set]
    split
    · rename_i hk; subst hk; simp [get?, h]
    · rename_i hk
      simp only [get?]
      split <;> simp [ih]

theorem get?_erase_same (t : Tbl) (k : String) : (t.erase k).get? k = none := by
  induction t using Tbl.ind with
  | nil => rfl
  | cons k' w r ih =>
    simp only [erase]
    split
    · exact ih
    · rename_i hk; simp [get?, hk, ih]

theorem get?_erase_other (t : Tbl) (k x : String) (h : k ≠ x) :
    (t.erase k).get? x = t.get? x := by
  induction t using Tbl.ind with
  | nil => rfl
  | cons k' w r ih =>
    simp only [erase]
    split
    · rename_i hk; subst hk; simp [get?, h, ih]
    · simp only [get?]; split <;> simp [ih]

theorem get?_none_of_not_mem (t : Tbl) (x : String) (h : x ∉ t.keys) : t.get? x = none := by
  induction t using Tbl.ind with
  | nil => rfl
  | cons k v r ih =>
    simp only [keys, List.mem_cons, not_or] at h
    simp [get?, Ne.symm h.1, ih h.2]

end Tbl

/-! ### well-formedness: unique keys at every level (what a decoded YAML/JSON map satisfies) -/

mutual
  def Val.WF : Val → Prop
    | .list l => l.WF
    | .tbl t => t.WF
    | _ => True
  def VList.WF : VList → Prop
    | .nil => True
    | .cons v r => v.WF ∧ r.WF
  def Tbl.WF : Tbl → Prop
    | .nil => True
    | .cons k v r => k ∉ r.keys ∧ v.WF ∧ r.WF
end

theorem Tbl.WF.get {t : Tbl} (h : t.WF) {k : String} {v : Val} (hg : t.get? k = some v) : v.WF := by
  induction t using Tbl.ind with
  | nil => simp at hg
  | cons k' w r ih =>
    simp only [Tbl.WF] at h
    simp only [Tbl.get?] at hg
    split at hg
    · cases hg; exact h.2.1
    · exact ih h.2.2 hg

/-! ### MergeMaps -/

/-- What `MergeMaps` stores at a key of `b`: recursive merge for table-on-table, else `b`'s value. -/
def mergeVal (o : Option Val) (bv : Val) : Val :=
  match bv, o with
  | .tbl vt, some (.tbl bt) => .tbl (mergeInto bt vt)
  | v, _ => v

theorem mergeInto_cons (out : Tbl) (k : String) (v : Val) (rest : Tbl) :
    mergeInto out (.cons k v rest) = mergeInto (out.set k (mergeVal (out.get? k) v)) rest := by
  cases v <;> simp only [mergeInto, mergeVal]
  -- table case
  cases h : out.get? k with
  | none => rfl
  | some w => cases w <;> rfl

/-- Key-level refinement of `MergeMaps(a, b)`: bindings of `a` are kept where `b` is silent;
where `b` binds a key, tables merge recursively and everything else is replaced by `b`'s value. -/
theorem get?_mergeInto (out b : Tbl) (hb : b.WF) (x : String) :
    (mergeInto out b).get? x =
      match b.get? x with
      | none => out.get? x
      | some v => some (mergeVal (out.get? x) v) := by
  induction b using Tbl.ind generalizing out with
  | nil => simp [mergeInto]
  | cons k v rest ih =>
    simp only [Tbl.WF] at hb
    rw [mergeInto_cons, ih _ hb.2.2]
    by_cases hkx : k = x
    · subst hkx
      rw [Tbl.get?_none_of_not_mem rest k hb.1]
      simp [Tbl.get?, Tbl.get?_set_same]
    · simp only [Tbl.get?, hkx, if_false, Tbl.get?_set_other _ _ _ _ hkx]

/-! ### coalesceTables -/

theorem get?_coalesceTables (merge : Bool) (dst src : Tbl) (hs : src.WF) (x : String) :
    (coalesceTables merge dst src).get? x =
      match src.get? x with
      | none => dst.get? x
      | some sv =>
        match dst.get? x with
        | none => some sv
        | some dv =>
          if !merge && dv.isNull then none
          else match sv, dv with
            | .tbl st, .tbl dt => some (.tbl (coalesceTables merge dt st))
            | _, _ => some dv := by
  induction src using Tbl.ind generalizing dst with
  | nil => simp [coalesceTables]
  | cons k val rest ih =>
    simp only [Tbl.WF] at hs
    have hrest : rest.get? k = none := Tbl.get?_none_of_not_mem rest k hs.1
    by_cases hkx : k = x
    · subst hkx
      simp only [Tbl.get?, if_true]
      rw [coalesceTables]
      cases hd : dst.get? k with
      | none =>
        simp only
        rw [ih _ hs.2.2, hrest]; simp [Tbl.get?_set_same]
      | some dv =>
        simp only
        split
        · rw [ih _ hs.2.2, hrest]; simp [Tbl.get?_erase_same]
        · split
          · rw [ih _ hs.2.2, hrest]; simp [Tbl.get?_set_same]
          · rw [ih _ hs.2.2, hrest]; simp [hd]
    · simp only [Tbl.get?, hkx, if_false]
      rw [coalesceTables]
      cases hd : dst.get? k with
      | none =>
        simp only
        rw [ih _ hs.2.2, Tbl.get?_set_other _ _ _ _ hkx]
      | some dv =>
        simp only
        split
        · rw [ih _ hs.2.2, Tbl.get?_erase_other _ _ _ hkx]
        · split
          · rw [ih _ hs.2.2, Tbl.get?_set_other _ _ _ _ hkx]
          · rw [ih _ hs.2.2]

end Helm.Values

namespace Helm.Values

/-! ### path-level corollaries -/

/-- `b` says nothing about path `p` (no binding along it). -/
def untouched : Tbl → List String → Prop
  | _, [] => True
  | b, [k] => b.get? k = none
  | b, k :: p => match b.get? k with
    | none => True
    | some (.tbl bt) => untouched bt p
    | some _ => False

theorem mergeVal_nontable (o : Option Val) (v : Val) (h : v.isTable = false) : mergeVal o v = v := by
  cases v <;> simp_all [mergeVal, Val.isTable]

theorem lookupPath_cons2 (t : Tbl) (k k' : String) (p : List String) :
    lookupPath t (k :: k' :: p) = match t.get? k with
      | some (.tbl t') => lookupPath t' (k' :: p)
      | _ => none := by
  simp only [lookupPath]
  cases h : t.get? k with
  | none => rfl
  | some v => cases v <;> rfl

theorem untouched_lookup_none (p : List String) : ∀ (b : Tbl), p ≠ [] → untouched b p →
    lookupPath b p = none := by
  induction p with
  | nil => intro b h; exact absurd rfl h
  | cons k p ih =>
    intro b _ hu
    cases p with
    | nil => simpa [lookupPath, untouched] using hu
    | cons k' p' =>
      rw [lookupPath_cons2]
      simp only [untouched] at hu
      cases hbk : b.get? k with
      | none => rfl
      | some bv =>
        rw [hbk] at hu
        cases bv with
        | tbl bt => exact ih bt (by simp) hu
        | _ => simp at hu

theorem merge_leaf_wins (p : List String) : ∀ (a b : Tbl) (v : Val), b.WF →
    lookupPath b p = some v → v.isTable = false → lookupPath (mergeInto a b) p = some v := by
  induction p with
  | nil => intro a b v _ h; simp [lookupPath] at h
  | cons k p ih =>
    intro a b v hb h hv
    cases p with
    | nil =>
      simp only [lookupPath] at h ⊢
      rw [get?_mergeInto a b hb k, h]
      simp [mergeVal_nontable _ v hv]
    | cons k' p' =>
      rw [lookupPath_cons2] at h ⊢
      cases hbk : b.get? k with
      | none => simp [hbk] at h
      | some bv =>
        cases bv with
        | tbl bt =>
          simp only [hbk] at h
          have hbt : bt.WF := hb.get hbk
          rw [get?_mergeInto a b hb k, hbk]
          simp only
          cases hak : a.get? k with
          | none => simpa [mergeVal] using h
          | some av =>
            cases av with
            | tbl at' => simpa [mergeVal] using ih at' bt v hbt h hv
            | _ => simpa [mergeVal] using h
        | _ => simp [hbk] at h

theorem merge_untouched (p : List String) : ∀ (a b : Tbl), b.WF →
    untouched b p → lookupPath (mergeInto a b) p = lookupPath a p := by
  induction p with
  | nil => intro a b _ _; simp [lookupPath]
  | cons k p ih =>
    intro a b hb hu
    cases p with
    | nil =>
      simp only [untouched] at hu
      simp only [lookupPath]
      rw [get?_mergeInto a b hb k, hu]
    | cons k' p' =>
      rw [lookupPath_cons2, lookupPath_cons2]
      rw [get?_mergeInto a b hb k]
      simp only [untouched] at hu
      cases hbk : b.get? k with
      | none => simp
      | some bv =>
        rw [hbk] at hu
        cases bv with
        | tbl bt =>
          simp only at hu
          have hbt : bt.WF := hb.get hbk
          simp only
          have hnone : lookupPath bt (k' :: p') = none := untouched_lookup_none _ bt (by simp) hu
          cases hak : a.get? k with
          | none => simp [mergeVal, hnone]
          | some av =>
            cases av with
            | tbl at' => simpa [mergeVal] using ih at' bt hbt hu
            | _ => simp [mergeVal, hnone]
        | _ => simp at hu

end Helm.Values

namespace Helm.Values

/-- The destination (higher-precedence side) wins at every path where it has a leaf that is not
an explicit null (a null leaf in coalesce mode deletes; in merge mode it is kept). -/
theorem coalesce_dst_wins (merge : Bool) (p : List String) : ∀ (dst src : Tbl) (v : Val), src.WF →
    lookupPath dst p = some v → v.isTable = false → (merge = true ∨ v.isNull = false) →
    lookupPath (coalesceTables merge dst src) p = some v := by
  induction p with
  | nil => intro dst src v _ h; simp [lookupPath] at h
  | cons k p ih =>
    intro dst src v hs h hv hn
    cases p with
    | nil =>
      simp only [lookupPath] at h ⊢
      rw [get?_coalesceTables merge dst src hs k, h]
      cases hsk : src.get? k with
      | none => rfl
      | some sv =>
        simp only
        have hcond : (!merge && v.isNull) = false := by
          rcases hn with hm | hnull
          · simp [hm]
          · simp [hnull]
        rw [hcond]
        cases sv <;> cases v <;> simp_all [Val.isTable]
    | cons k' p' =>
      rw [lookupPath_cons2] at h ⊢
      cases hdk : dst.get? k with
      | none => simp [hdk] at h
      | some dv =>
        cases dv with
        | tbl dt =>
          simp only [hdk] at h
          rw [get?_coalesceTables merge dst src hs k, hdk]
          cases hsk : src.get? k with
          | none => simpa using h
          | some sv =>
            simp only [Val.isNull, Bool.and_false]
            cases sv with
            | tbl st => simpa using ih dt st v (hs.get hsk) h hv hn
            | _ => simpa using h
        | _ => simp [hdk] at h

end Helm.Values
