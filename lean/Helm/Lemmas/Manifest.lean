import Helm.Model.Manifest
namespace Helm.Manifest

/-! ### trimSpace is idempotent -/

theorem dropWhile_self_of_head {α} (p : α → Bool) :
    ∀ (l : List α), (∀ a, l.head? = some a → p a = false) → l.dropWhile p = l
  | [], _ => rfl
  | a :: l, h => by
    have : p a = false := h a rfl
    simp [List.dropWhile, this]

theorem head_dropWhile {α} (p : α → Bool) :
    ∀ (l : List α) a, (l.dropWhile p).head? = some a → p a = false
  | [], a, h => by simp at h
  | b :: l, a, h => by
    simp only [List.dropWhile] at h
    cases hb : p b with
    | true => rw [hb] at h; exact head_dropWhile p l a h
    | false => rw [hb] at h; simp at h; subst h; exact hb

/-- Dropping a trailing run keeps the first element (when anything is left). -/
theorem head_dropLast_run {α} (p : α → Bool) (l : List α) (a : α)
    (h : ((l.reverse.dropWhile p).reverse).head? = some a) : l.head? = some a := by
  have hsuf : (l.reverse.dropWhile p) <:+ l.reverse := List.dropWhile_suffix p
  have hpre : (l.reverse.dropWhile p).reverse <+: l := by
    have := List.reverse_prefix.mpr hsuf
    simpa using this
  obtain ⟨t, ht⟩ := hpre
  cases hx : (l.reverse.dropWhile p).reverse with
  | nil => rw [hx] at h; simp at h
  | cons x xs =>
    rw [hx] at h ht
    simp at h; subst h
    rw [← ht]; simp

theorem trimSpace_idem (s : Str) : trimSpace (trimSpace s) = trimSpace s := by
  unfold trimSpace
  set_option maxRecDepth 2000 in
  have h1 : ((((s.dropWhile isGoSpace).reverse.dropWhile isGoSpace).reverse).dropWhile isGoSpace)
      = ((s.dropWhile isGoSpace).reverse.dropWhile isGoSpace).reverse := by
    apply dropWhile_self_of_head
    intro a ha
    have := head_dropLast_run isGoSpace (s.dropWhile isGoSpace) a ha
    exact head_dropWhile isGoSpace s a this
  rw [h1]
  simp only [List.reverse_reverse]
  have h2 : ((s.dropWhile isGoSpace).reverse.dropWhile isGoSpace).dropWhile isGoSpace
      = (s.dropWhile isGoSpace).reverse.dropWhile isGoSpace := by
    apply dropWhile_self_of_head
    intro a ha
    exact head_dropWhile isGoSpace _ a ha
  rw [h2]

/-! ### classification partitions the documents -/

theorem classify_generic {table path doc h m} (hc : classify table path doc h = .generic m) :
    (m.name, m.content) = (path, doc) := by
  unfold classify at hc
  split at hc
  · cases hc; rfl
  · split at hc <;> cases hc

theorem classify_hook {table path doc h hk} (hc : classify table path doc h = .hook hk) :
    (hk.path, hk.manifest) = (path, doc) := by
  unfold classify at hc
  split at hc
  · cases hc
  · split at hc
    · cases hc
    · cases hc; rfl

theorem classify_partition (table : List (String × String)) (headOf : Str → Head)
    (docs : List (String × Str)) :
    ((genericOf (classifyAll table headOf docs)).map (fun m => (m.name, m.content)) ++
      (hooksOf (classifyAll table headOf docs)).map (fun h => (h.path, h.manifest)) ++
      docs.filter (fun d => classify table d.1 d.2 (headOf d.2) = .dropped)).Perm docs := by
  induction docs with
  | nil => simp [classifyAll, genericOf, hooksOf]
  | cons pd rest ih =>
    obtain ⟨p, d⟩ := pd
    simp only [classifyAll, List.map_cons] at ih ⊢
    cases hc : classify table p d (headOf d) with
    | generic m =>
      have := classify_generic hc
      simp only [genericOf, hooksOf, List.map_cons, List.filter_cons, hc]
      simp only [this, List.cons_append]
      simpa using List.Perm.cons (p, d) ih
    | hook hk =>
      have := classify_hook hc
      simp only [genericOf, hooksOf, List.map_cons, List.filter_cons, hc]
      simp only [this]
      refine List.Perm.trans ?_ (List.Perm.cons (p, d) ih)
      simp only [List.append_assoc, List.cons_append]
      exact List.perm_middle
    | dropped =>
      simp only [genericOf, hooksOf, List.filter_cons, hc]
      simp only [decide_true, if_true]
      refine List.Perm.trans ?_ (List.Perm.cons (p, d) ih)
      exact List.perm_middle

theorem eventsOf_isSome_iff' (table : List (String × String)) (ws : List String) :
    (eventsOf table ws).isSome ↔ ∀ w ∈ ws, (lookup w table).isSome := by
  induction ws with
  | nil => simp [eventsOf]
  | cons w ws ih =>
    have hstep : eventsOf table (w :: ws) =
        (match lookup w table, eventsOf table ws with
          | some e, some es => some (e :: es)
          | _, _ => none) := by
      rfl
    rw [hstep]
    cases h1 : lookup w table <;> cases h2 : eventsOf table ws <;> simp_all

/-! ### NOTES extraction -/

theorem extractNotes_foldl_rest (subNotes : Bool) (main : String) (files : List (String × Str))
    (acc : Str × List (String × Str)) :
    (files.foldl (fun (acc : Str × List (String × Str)) (kv : String × Str) =>
      if hasSuffix kv.1.toList notesSuffix then
        if subNotes || kv.1 = main then
          ((if acc.1.isEmpty then kv.2 else acc.1 ++ ['\n'] ++ kv.2), acc.2)
        else acc
      else (acc.1, acc.2 ++ [kv])) acc).2 =
    acc.2 ++ files.filter (fun kv => !hasSuffix kv.1.toList notesSuffix) := by
  induction files generalizing acc with
  | nil => simp
  | cons kv rest ih =>
    simp only [List.foldl_cons]
    rw [ih]
    by_cases h : hasSuffix kv.1.toList notesSuffix = true
    · simp only [h, if_true, List.filter_cons, Bool.not_true]
      split <;> simp
    · simp only [Bool.not_eq_true] at h
      simp [h, List.filter_cons]

theorem extractNotes_rest_eq (subNotes : Bool) (main : String) (files : List (String × Str)) :
    (extractNotes subNotes main files).2 =
      files.filter (fun kv => !hasSuffix kv.1.toList notesSuffix) := by
  unfold extractNotes
  rw [extractNotes_foldl_rest]
  simp

theorem extractNotes_rest_no_notes (subNotes : Bool) (main : String) (files : List (String × Str)) :
    ∀ kv ∈ (extractNotes subNotes main files).2, hasSuffix kv.1.toList notesSuffix = false := by
  rw [extractNotes_rest_eq]
  intro kv hkv
  simpa using (List.mem_filter.mp hkv).2

end Helm.Manifest
