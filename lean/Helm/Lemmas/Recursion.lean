import Helm.Model.Recursion

namespace Helm.Recursion

theorem fold_not_fatal (f : Nat → Res) (l : List Nat) (acc : Res) (ha : acc ≠ .fatal)
    (hf : ∀ n ∈ l, f n ≠ .fatal) : l.foldl (seqStep f) acc ≠ .fatal := by
  induction l generalizing acc with
  | nil => simpa using ha
  | cons n r ih =>
    simp only [List.foldl_cons]
    apply ih
    · cases acc with
      | ok t =>
        simp only [seqStep]
        have := hf n List.mem_cons_self
        cases h : f n with
        | ok t' => simp
        | err c => simp
        | fatal => exact absurd h this
      | err c => simp [seqStep]
      | fatal => exact absurd rfl ha
    · intro m hm; exact hf m (List.mem_cons_of_mem _ hm)

theorem fold_ok (f : Nat → Res) (l : List Nat) (t : List Nat)
    (hf : ∀ n ∈ l, ∃ t', f n = .ok t') : ∃ t'', l.foldl (seqStep f) (.ok t) = .ok t'' := by
  induction l generalizing t with
  | nil => exact ⟨t, rfl⟩
  | cons n r ih =>
    obtain ⟨t', ht'⟩ := hf n List.mem_cons_self
    simp only [List.foldl_cons, seqStep, ht']
    exact ih _ (fun m hm => hf m (List.mem_cons_of_mem _ hm))

theorem slack_bump (max : Nat) (cnt : Nat → Nat) (c K : Nat) (hc : c < K) (hle : cnt c ≤ max) :
    slack max (bump cnt c) K + 1 = slack max cnt K := by
  induction K with
  | zero => omega
  | succ k ih =>
    simp only [slack]
    by_cases hk : c = k
    · subst hk
      have h0 : ∀ j, j ≤ c → slack max (bump cnt c) j = slack max cnt j := by
        intro j hj
        induction j with
        | zero => rfl
        | succ i ihi =>
          have hi : i ≠ c := by omega
          simp only [slack, ihi (by omega), bump, hi, if_false]
      rw [h0 c (Nat.le_refl _)]
      simp only [bump, if_true]
      omega
    · have : c < k := by omega
      have ih' := ih this
      have hb : bump cnt c k = cnt k := by simp [bump, Ne.symm hk]
      rw [hb]; omega

theorem slack_zero (max K : Nat) : slack max (fun _ => 0) K = K * (max + 1) := by
  induction K with
  | zero => simp [slack]
  | succ k ih => simp only [slack, ih, Nat.succ_mul]; omega

/-- with shared counters over finitely many counter names, a call never needs more stack
than the slack the counters have left -/
theorem call_not_fatal (p : Prog) (hs : p.shared = true) (K : Nat) (hK : ∀ n, p.ctr n < K) :
    ∀ (fuel : Nat) (cnt : Nat → Nat) (node : Nat), slack p.max cnt K < fuel → call p fuel cnt node ≠ .fatal := by
  intro fuel
  induction fuel with
  | zero => intro cnt node h; omega
  | succ f ih =>
    intro cnt node h
    simp only [call]
    by_cases hg : cnt (p.ctr node) > p.max
    · simp [hg]
    · simp only [hg, if_false, hs, Bool.not_true, Bool.and_false, Bool.false_eq_true]
      apply fold_not_fatal
      · simp
      · intro n _
        apply ih
        have := slack_bump p.max cnt (p.ctr node) K (hK node) (by omega)
        omega

/-- a chart whose calls are well-founded and at most `max` deep is rendered, never refused -/
theorem call_ok_of_rank (p : Prog) (rank : Nat → Nat) (hr : ∀ n, ∀ m ∈ p.body n, rank m < rank n) :
    ∀ (fuel : Nat) (cnt : Nat → Nat) (node : Nat), (∀ c, cnt c + rank node ≤ p.max) → rank node < fuel →
      ∃ t, call p fuel cnt node = .ok t := by
  intro fuel
  induction fuel with
  | zero => intro cnt node _ h; omega
  | succ f ih =>
    intro cnt node hc hf
    simp only [call]
    have hg : ¬ cnt (p.ctr node) > p.max := by have := hc (p.ctr node); omega
    simp only [hg, if_false]
    apply fold_ok
    intro m hm
    have hlt := hr node m hm
    apply ih
    · intro c
      split
      · have := hc c; simp; omega
      · have := hc c
        simp only [bump]
        split <;> omega
    · omega

end Helm.Recursion
