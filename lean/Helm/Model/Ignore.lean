/-
M10: .helmignore.
  pkg/ignore/rules.go            Parse, parseRule, Rules.Ignore, AddDefaults
  pkg/chart/v2/loader/directory.go   LoadDir's walk (an ignored directory is skipped with all
                                  its contents; an ignored file is skipped)
filepath.Match is modelled for patterns made of literal characters, `*` and `?` (no character
classes, no escapes: rule sets using `[` or `\` are outside the model; the correspondence
generator does not produce them).  Paths are slash-separated, relative to the chart directory.
-/
namespace Helm.Ignore

/-! ### filepath.Match -/

/-- `*`: try every split where the part consumed has no separator -/
def starAny (f : List Char → Bool) : List Char → Bool
  | [] => f []
  | c :: n => f (c :: n) || (c != '/' && starAny f n)

def glob : List Char → List Char → Bool
  | [], n => n.isEmpty
  | c :: p, n =>
    if c = '*' then starAny (glob p) n
    else match n with
      | [] => false
      | d :: n' => (if c = '?' then d != '/' else c == d) && glob p n'

/-! ### rules -/

inductive Scope where
  | rooted        -- the rule starts with `/`: the whole path, from the chart's root
  | structural    -- the rule contains a `/`: the whole path
  | basename      -- otherwise: the last path element only
  deriving Repr, DecidableEq, Inhabited

structure Rule where
  negate : Bool
  mustDir : Bool
  scope : Scope
  pat : List Char
  deriving Repr, DecidableEq, Inhabited

inductive Parsed where
  | skip                -- blank line or comment
  | bad                 -- `**`
  | rule (r : Rule)
  deriving Repr, DecidableEq, Inhabited

def isSpace (c : Char) : Bool := c = ' ' || c = '\t' || c = '\n' || c = '\r' || c = '\x0b' || c = '\x0c'

def trim (l : List Char) : List Char := ((l.dropWhile isSpace).reverse.dropWhile isSpace).reverse

def hasDoubleStar : List Char → Bool
  | '*' :: '*' :: _ => true
  | _ :: r => hasDoubleStar r
  | [] => false

def dropLastSlash (l : List Char) : List Char × Bool :=
  match l.reverse with
  | '/' :: r => (r.reverse, true)
  | _ => (l, false)

/-- `parseRule` -/
def parseRule (line : List Char) : Parsed :=
  let rule := trim line
  if rule.isEmpty then .skip
  else if rule.head? = some '#' then .skip
  else if hasDoubleStar rule then .bad
  else
    let (negate, r1) := match rule with
      | '!' :: r => (true, r)
      | r => (false, r)
    let (r2, mustDir) := dropLastSlash r1
    match r2 with
    | '/' :: r3 => .rule ⟨negate, mustDir, .rooted, r3⟩
    | _ => if r2.contains '/' then .rule ⟨negate, mustDir, .structural, r2⟩ else .rule ⟨negate, mustDir, .basename, r2⟩

/-- `filepath.Base` of a relative slash path without trailing slash -/
def base (p : List Char) : List Char :=
  (p.reverse.takeWhile (· != '/')).reverse

def matchRule (r : Rule) (path : List Char) : Bool :=
  match r.scope with
  | .basename => glob r.pat (base path)
  | _ => glob r.pat path

/-- the loop of `Rules.Ignore` -/
def ignoreLoop (path : List Char) (isDir : Bool) : List Rule → Bool
  | [] => false
  | r :: rs =>
    if r.negate then
      if r.mustDir && !isDir then true
      else if !matchRule r path then true
      else ignoreLoop path isDir rs
    else if r.mustDir && !isDir then ignoreLoop path isDir rs
    else if matchRule r path then true
    else ignoreLoop path isDir rs

/-- `Rules.Ignore(path, fi)` -/
def ignore (rules : List Rule) (path : List Char) (isDir : Bool) : Bool :=
  if path.isEmpty || path = ['.'] || path = ['.', '/'] then false else ignoreLoop path isDir rules

/-- `AddDefaults`: dot-files in templates/ -/
def defaultRule : Rule := ⟨false, false, .structural, "templates/.?*".toList⟩

/-- `Parse` of the lines of a .helmignore (then `AddDefaults`): none = a line was rejected -/
def parseLines : List (List Char) → Option (List Rule)
  | [] => some []
  | l :: rest =>
    match parseRule l with
    | .bad => none
    | .skip => parseLines rest
    | .rule r => (parseLines rest).map (r :: ·)

def rulesOf (lines : List (List Char)) : Option (List Rule) := (parseLines lines).map (· ++ [defaultRule])

/-! ### LoadDir's walk -/

/-- the directories above a path: "a/b/c" ↦ ["a", "a/b"] -/
def ancestorsAux : List Char → List Char → List (List Char)
  | _, [] => []
  | acc, c :: r => if c = '/' then acc.reverse :: ancestorsAux (c :: acc) r else ancestorsAux (c :: acc) r

def ancestors (p : List Char) : List (List Char) := ancestorsAux [] p

/-- is the file at this path loaded? no directory above it is ignored (it would be skipped
with everything in it) and the file itself is not ignored -/
def loaded (rules : List Rule) (path : List Char) : Bool :=
  (ancestors path).all (fun a => !ignore rules a true) && !ignore rules path false

def loadDir (rules : List Rule) (files : List (List Char)) : List (List Char) := files.filter (loaded rules)

end Helm.Ignore
