/-
M9 (paths and sizes):
  pkg/chart/v2/loader/archive.go   LoadArchiveFiles: entry-name normalisation and size accounting
  pkg/plugin/installer/http_installer.go  cleanJoin (lexical part, before securejoin)
  Go's path.Clean / path.IsAbs / strings.Split (re-implemented here, tied by correspondence)
Not modelled: archive/tar, gzip, securejoin and the file system.
-/
import Helm.Gen.Tables
namespace Helm.ArchivePath

abbrev Str := List Char

/-- `strings.Split(s, sep)` for a one-rune separator. -/
def splitOn (c : Char) : Str → List Str
  | [] => [[]]
  | x :: r =>
    if x = c then [] :: splitOn c r
    else match splitOn c r with
      | [] => [[x]]
      | p :: ps => (x :: p) :: ps

/-- `strings.Join(parts, sep)` for a one-rune separator. -/
def joinWith (c : Char) : List Str → Str
  | [] => []
  | [p] => p
  | p :: ps => p ++ c :: joinWith c ps

def dotdot : Str := ['.', '.']

/-- One component of `path.Clean` on the stack of kept components (top first).
`rooted`: a `..` at the root is dropped. -/
def cleanStep (rooted : Bool) (stack : List Str) (c : Str) : List Str :=
  if c = [] || c = ['.'] then stack
  else if c = dotdot then
    match stack with
    | top :: rest => if top = dotdot then c :: stack else rest
    | [] => if rooted then [] else [c]
  else c :: stack

def cleanComps (rooted : Bool) (comps : List Str) : List Str :=
  (comps.foldl (cleanStep rooted) []).reverse

/-- `path.Clean`. -/
def pathClean (s : Str) : Str :=
  match s with
  | [] => ['.']
  | '/' :: _ => '/' :: joinWith '/' (cleanComps true (splitOn '/' s))
  | _ =>
    match cleanComps false (splitOn '/' s) with
    | [] => ['.']
    | comps => joinWith '/' comps

def isAbs (s : Str) : Bool := s.head? = some '/'

/-- `^[a-zA-Z]:/` -/
def drivePrefix : Str → Bool
  | a :: ':' :: '/' :: _ => a.isAlpha
  | _ => false

inductive NameErr where
  | absolute | outsideBase | parentRef | driveName | chartYamlNotInBase
  deriving Repr, DecidableEq, Inhabited

/-- The name normalisation of `LoadArchiveFiles` for one tar header name: the name the loaded
file gets, or the reason the whole archive is rejected. -/
def normName (hdName : Str) : Except NameErr Str :=
  let delim : Char := if hdName.contains '\\' then '\\' else '/'
  let parts := splitOn delim hdName
  let n := joinWith '/' parts.tail        -- Join(parts[1:], delim) with delim replaced by "/"
  if isAbs n then .error .absolute
  else
    let n := pathClean n
    if n = ['.'] then .error .outsideBase
    else if dotdot.isPrefixOf n then .error .parentRef
    else if drivePrefix n then .error .driveName
    else if parts.head? = some "Chart.yaml".toList then .error .chartYamlNotInBase
    else .ok n

/-! ### plugin archives: the lexical checks of `cleanJoin` -/

inductive JoinErr where
  | colon | parent | absolute
  deriving Repr, DecidableEq, Inhabited

/-- What `cleanJoin` hands to `securejoin.SecureJoin(root, ·)`, or why it refuses. -/
def cleanJoinLex (dest : Str) : Except JoinErr Str :=
  if dest.contains ':' then .error .colon
  else
    let d := dest.map fun c => if c = '\\' then '/' else c
    if (splitOn '/' d).contains dotdot then .error .parent
    else if isAbs d then .error .absolute
    else .ok d

/-! ### size accounting -/

inductive SizeRes where
  | accepted (read : Nat)      -- total bytes read
  | rejected (read : Nat)      -- rejected after having read this many bytes
  deriving Repr, DecidableEq, Inhabited

def SizeRes.read : SizeRes → Nat
  | .accepted r => r
  | .rejected r => r

/-- The size checks of the `LoadArchiveFiles` loop. Each entry is the size declared in its tar
header; the tar reader yields exactly that many bytes, of which `io.LimitReader` passes at most
`remaining`. `read` accumulates the bytes actually copied. -/
def sizeLoop (maxFile : Nat) : List Nat → (remaining : Nat) → (read : Nat) → SizeRes
  | [], _, read => .accepted read
  | size :: rest, remaining, read =>
    if size > remaining then .rejected read
    else if size > maxFile then .rejected read
    else
      let written := min size remaining
      if written < size || remaining - written = 0 then .rejected (read + written)
      else sizeLoop maxFile rest (remaining - written) (read + written)

def loadSizes (sizes : List Nat) : SizeRes :=
  sizeLoop Helm.Gen.maxDecompressedFileSize sizes Helm.Gen.maxDecompressedChartSize 0

end Helm.ArchivePath
