/-
M9 (provenance): the decision structure of pkg/provenance/sign.go Signatory.Verify and the
strategy handling of pkg/downloader/chart_downloader.go DownloadTo / VerifyChart.
Cryptography and framing are parameters: clearsign decoding, OpenPGP signature checking against
a keyring, SHA-256, and the YAML parse of the message block.
-/
namespace Helm.Prov

abbrev Bytes := List UInt8

/-- a decoded clearsign block -/
structure Block where
  signed : Bytes        -- `block.Bytes`: the canonicalised text the signature covers
  plaintext : Bytes     -- `block.Plaintext`: what `parseMessageBlock` reads
  sig : Bytes           -- armored signature body
  deriving Repr, DecidableEq, Inhabited

/-- the primitives, as parameters -/
structure Prims (Keyring : Type) where
  decode : Bytes → Option Block                       -- clearsign.Decode
  sigValid : Keyring → Bytes → Bytes → Bool           -- openpgp.CheckDetachedSignature (signed text, signature)
  sha256hex : Bytes → String                          -- hex(SHA-256)
  parseSums : Bytes → Option (List (String × String)) -- parseMessageBlock → SumCollection.Files

def lookup (k : String) : List (String × String) → Option String
  | [] => none
  | (k', v) :: r => if k' = k then some v else lookup k r

inductive Verdict where
  | ok
  | noSignature | badSignature | badMessage | noSumForFile | sumMismatch
  deriving Repr, DecidableEq, Inhabited

/-- `Signatory.Verify(chartpath, sigpath)` on the bytes of the two files; `base` = `filepath.Base(chartpath)`. -/
def verify {K} (p : Prims K) (kr : K) (archive : Bytes) (base : String) (prov : Bytes) : Verdict :=
  match p.decode prov with
  | none => .noSignature
  | some b =>
    if !p.sigValid kr b.signed b.sig then .badSignature
    else match p.parseSums b.plaintext with
      | none => .badMessage
      | some sums =>
        match lookup base sums with
        | none => .noSumForFile
        | some sha => if sha = "sha256:" ++ p.sha256hex archive then .ok else .sumMismatch

inductive Strategy where
  | never | ifPossible | always | later
  deriving Repr, DecidableEq, Inhabited

inductive DlOutcome where
  | ok | okUnverified | error
  deriving Repr, DecidableEq, Inhabited

/-- `DownloadTo` after the archive is fetched: `provFetched` = the `.prov` could be downloaded. -/
def downloadVerify (s : Strategy) (provFetched : Bool) (v : Verdict) : DlOutcome :=
  match s with
  | .never => .okUnverified
  | _ =>
    if !provFetched then (if s = .always then .error else .okUnverified)
    else if s = .later then .okUnverified
    else if v = .ok then .ok else .error

end Helm.Prov
