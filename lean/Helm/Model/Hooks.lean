/-
M6: hook execution.
  pkg/action/hooks.go   execHook (selection by event, sort.Stable(hookByWeight), per hook:
                        delete-before-creation, create, watch; on a watch failure the failed
                        hook and the earlier successful ones are deleted by policy; after
                        all succeeded, reverse-order deletion by policy), deleteHookByPolicy
  the placement of the two hook phases around the resource phase in install / upgrade /
  rollback / uninstall (performInstall, releasingUpgrade, performRollback, Uninstall.Run)
The cluster is the set of hook object names that exist (a create of an existing object is
refused by the API server: AlreadyExists).  Whether a hook's watch fails is an oracle.
Not modelled: kinds (CustomResourceDefinition hooks are never deleted), log output policies,
the per-hook storage write (Ledger.lean), time stamps and phases recorded on the hook.
-/
namespace Helm.Hooks

inductive Policy where
  | before | succeeded | failed
  deriving Repr, DecidableEq, Inhabited

structure Hook where
  key : String                 -- identity of the hook object (kind/namespace/name)
  name : String                -- what `hookByWeight` compares
  weight : Int := 0
  events : List String := []
  policies : List Policy := []
  deriving Repr, DecidableEq, Inhabited

inductive HEv where
  | del (n : String)        -- DELETE of the hook object (followed by WaitForDelete)
  | create (n : String)     -- POST
  | watch (n : String)      -- WatchUntilReady returned
  | res                     -- the resource phase of the operation (create/update/delete + wait)
  deriving Repr, DecidableEq, Inhabited

/-- `hookByWeight.Less` -/
def hookLt (a b : Hook) : Bool :=
  if a.weight = b.weight then a.name < b.name else a.weight < b.weight

/-- `sort.Stable`: stable insertion (the new element goes before the first one that is not
smaller than it; it comes from the left of everything already inserted) -/
def insertHook (x : Hook) : List Hook → List Hook
  | [] => [x]
  | y :: ys => if hookLt y x then y :: insertHook x ys else x :: y :: ys

def sortHooks : List Hook → List Hook
  | [] => []
  | x :: xs => insertHook x (sortHooks xs)

/-- the hooks of the release that carry the event, once per mention -/
def selectHooks (hooks : List Hook) (ev : String) : List Hook :=
  hooks.flatMap fun h => (h.events.filter (· = ev)).map fun _ => h

/-- the default policy is before-hook-creation -/
def effPol (h : Hook) : List Policy := if h.policies.isEmpty then [.before] else h.policies

def hasPol (h : Hook) (p : Policy) : Bool := (effPol h).contains p

/-- `deleteHookByPolicy` -/
def delIf (h : Hook) (p : Policy) : List HEv := if hasPol h p then [.del h.key] else []

def exDel (ex : List String) (h : Hook) (p : Policy) : List String :=
  if hasPol h p then ex.filter (· ≠ h.key) else ex

structure Run where
  evs : List HEv
  ex : List String       -- hook objects that exist afterwards
  ok : Bool
  deriving Repr, DecidableEq, Inhabited

/-- the loop of `execHook` over the sorted hooks -/
def runHooks (fails : String → Bool) : List String → List Hook → List Hook → Run
  | ex, done, [] =>
    ⟨done.reverse.flatMap (delIf · .succeeded), done.foldl (fun e h => exDel e h .succeeded) ex, true⟩
  | ex, done, h :: rest =>
    let ex1 := exDel ex h .before
    let pre := delIf h .before ++ [.create h.key]
    if ex1.contains h.key then ⟨pre, ex1, false⟩        -- AlreadyExists: the error is returned at once
    else if fails h.name then
      ⟨pre ++ [.watch h.key] ++ delIf h .failed ++ done.flatMap (delIf · .succeeded),
       done.foldl (fun e h => exDel e h .succeeded) (exDel (h.key :: ex1) h .failed), false⟩
    else
      let r := runHooks fails (h.key :: ex1) (done ++ [h]) rest
      ⟨pre ++ [.watch h.key] ++ r.evs, r.ex, r.ok⟩

/-- `execHook(rl, event)` -/
def execHook (fails : String → Bool) (ex : List String) (hooks : List Hook) (ev : String) : Run :=
  runHooks fails ex [] (sortHooks (selectHooks hooks ev))

/-- an operation: pre-hooks, resource phase, post-hooks -/
def operation (fails : String → Bool) (disableHooks resFails : Bool) (ex : List String) (hooks : List Hook)
    (preEv postEv : String) : Run :=
  if disableHooks then ⟨[.res], ex, !resFails⟩
  else
    let r1 := execHook fails ex hooks preEv
    if !r1.ok then r1
    else if resFails then ⟨r1.evs ++ [.res], r1.ex, false⟩
    else
      let r2 := execHook fails r1.ex hooks postEv
      ⟨r1.evs ++ [.res] ++ r2.evs, r2.ex, r2.ok⟩

end Helm.Hooks
