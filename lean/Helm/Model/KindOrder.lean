/-
Model of pkg/release/util/kind_sorter.go: lessByKind and the stable sort by kind.
Core Lean only.
-/
namespace Helm.KindOrder

/-- Position of kind `k` in the ordering table (Go: `ordering[k]`, built from the
table; for a duplicate-free table -- a regenerated obligation -- first = last index). -/
def rank : List String → String → Option Nat
  | [], _ => none
  | x :: xs, k => if x = k then some 0 else (rank xs k).map (· + 1)

/-- `lessByKind(_, _, kindA, kindB, o)`. -/
def lessByKind (o : List String) (a b : String) : Bool :=
  match rank o a, rank o b with
  | none, none => decide (a < b)      -- both unknown: alphabetical; same kind: `first < second` = `0 < 0`
  | none, some _ => false             -- unknown kind is last
  | some _, none => true
  | some i, some j => decide (i < j)

/-- The `le` handed to the stable merge sort: `a` may stay before `b` iff not `less b a`. -/
def leByKind (o : List String) (a b : String) : Bool := !lessByKind o b a

/-- `sort.SliceStable(xs, less on kinds)`; `key` projects the kind out of an element.
A stable sort by a strict weak order has exactly one result, so the algorithm is immaterial. -/
def sortByKind {α} (o : List String) (key : α → String) (xs : List α) : List α :=
  xs.mergeSort (fun x y => leByKind o (key x) (key y))

end Helm.KindOrder
