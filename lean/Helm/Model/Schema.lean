/-
pkg/chart/v2/util/jsonschema.go ValidateAgainstSchema (recursion over the chart tree; the
validator of one schema is a parameter) and pkg/chart/v2/util/values.go
ToRenderValuesWithSchemaValidation (the gate).  Plus an independent evaluator for a generated
JSON-schema family (type, required, enum, integer bounds, nested properties,
additionalProperties:false) used as the oracle against santhosh-tekuri/jsonschema.
-/
import Helm.Model.Values
namespace Helm.Schema
open Helm.Values

inductive Ty where
  | object | string | integer | number | boolean | array | null
  deriving Repr, DecidableEq, Inhabited

mutual
  inductive Schema where
    | mk (ty : Option Ty) (required : List String) (enum : Option (List String))
         (minimum maximum : Option Int) (props : SProps) (additional : Bool)
  inductive SProps where
    | nil
    | cons (k : String) (s : Schema) (r : SProps)
end

instance : Inhabited Schema := ⟨.mk none [] none none none .nil true⟩
instance : Inhabited SProps := ⟨.nil⟩

def SProps.keys : SProps → List String
  | .nil => []
  | .cons k _ r => k :: keys r

/-- integer value of a number literal, if it is one ("3", "-2", "4.0" are integers; "1.5" is not) -/
def intOf (s : String) : Option Int :=
  match s.splitOn "." with
  | [a] => a.toInt?
  | [a, b] => if b.toList.all (· = '0') then a.toInt? else none
  | _ => none

/-- a decimal literal as (numerator, denominator = 10^k) -/
def ratOf (s : String) : Option (Int × Nat) :=
  match s.splitOn "." with
  | [a] => a.toInt?.map (·, 1)
  | [a, b] =>
    match a.toInt?, b.toNat? with
    | some ai, some bn =>
      let den : Nat := 10 ^ b.length
      some (if a.startsWith "-" then ai * (den : Int) - (bn : Int) else ai * (den : Int) + (bn : Int), den)
    | _, _ => none
  | _ => none

def hasType : Ty → Val → Bool
  | .object, .tbl _ => true
  | .string, .str _ => true
  | .integer, .num s => (intOf s).isSome
  | .number, .num _ => true
  | .boolean, .bool _ => true
  | .array, .list _ => true
  | .null, .null => true
  | _, _ => false

/-- enum over scalar literals, written as their JSON text -/
def litOf : Val → Option String
  | .null => some "null"
  | .bool true => some "true"
  | .bool false => some "false"
  | .num s => some ((intOf s).elim s toString)
  | .str s => some ("\"" ++ s ++ "\"")
  | _ => none

mutual
  def validate : Schema → Val → Bool
    | .mk ty required enum minimum maximum props additional, v =>
      (match ty with | some t => hasType t v | none => true) &&
      (match enum with | some lits => (match litOf v with | some l => lits.contains l | none => false) | none => true) &&
      (match v with
        | .num s => (match ratOf s, minimum with | some (n, d), some m => decide (m * d ≤ n) | _, _ => true) &&
                    (match ratOf s, maximum with | some (n, d), some m => decide (n ≤ m * d) | _, _ => true)
        | _ => true) &&
      (match v with
        | .tbl t =>
          required.all (fun k => (t.get? k).isSome) &&
          validateProps props t &&
          (additional || t.keys.all (fun k => props.keys.contains k))
        | _ => true)
  def validateProps : SProps → Tbl → Bool
    | .nil, _ => true
    | .cons k s r, t =>
      (match t.get? k with | some x => validate s x | none => true) && validateProps r t
end

/-! ### the gate over the chart tree -/

mutual
  inductive SChart where
    | mk (name : String) (schema : Option Schema) (deps : SChartList)
  inductive SChartList where
    | nil
    | cons (c : SChart) (r : SChartList)
end

instance : Inhabited SChartList := ⟨.nil⟩
instance : Inhabited SChart := ⟨.mk "" none .nil⟩

def SChart.name : SChart → String | .mk n _ _ => n

mutual
  /-- `ValidateAgainstSchema(chrt, values)`: the names of the charts whose schema rejects their
  part of the (coalesced) values, in the order the error text lists them.  `valid` is the
  validator of one schema (`ValidateAgainstSingleSchema`).  A dependency whose section is not a
  table is a panic in Go (unchecked type assertion): `none`. -/
  def failing (valid : Schema → Tbl → Bool) : SChart → Tbl → Option (List String)
    | .mk name schema deps, vals =>
      let own := match schema with
        | some s => if valid s vals then [] else [name]
        | none => []
      match failingDeps valid deps vals with
      | some r => some (own ++ r)
      | none => none
  def failingDeps (valid : Schema → Tbl → Bool) : SChartList → Tbl → Option (List String)
    | .nil, _ => some []
    | .cons c r, vals =>
      match vals.get? c.name with
      | some (.tbl sub) =>
        match failing valid c sub, failingDeps valid r vals with
        | some a, some b => some (a ++ b)
        | _, _ => none
      | _ => none
end

/-! spec-side view of the tree: each chart with the values it is responsible for -/

mutual
  /-- every chart of the tree with the part of the coalesced values it is responsible for
  (`none` when some dependency's section is not a table) -/
  def scopeOf : SChart → Tbl → Option (List (String × Option Schema × Tbl))
    | .mk name schema deps, vals =>
      match scopeDeps deps vals with
      | some r => some ((name, schema, vals) :: r)
      | none => none
  def scopeDeps : SChartList → Tbl → Option (List (String × Option Schema × Tbl))
    | .nil, _ => some []
    | .cons c r, vals =>
      match vals.get? c.name with
      | some (.tbl sub) =>
        match scopeOf c sub, scopeDeps r vals with
        | some a, some b => some (a ++ b)
        | _, _ => none
      | _ => none
end

/-- does this chart's schema reject its values? -/
def rejects (valid : Schema → Tbl → Bool) (e : String × Option Schema × Tbl) : Option String :=
  match e.2.1 with
  | some s => if valid s e.2.2 then none else some e.1
  | none => none

/-- the gate in `ToRenderValuesWithSchemaValidation` -/
def gate (valid : Schema → Tbl → Bool) (skip : Bool) (c : SChart) (vals : Tbl) : Bool :=
  skip || failing valid c vals == some []

end Helm.Schema
