/-
M9: the dry-run decision and the CRD phase of install.
  pkg/action/install.go   isDryRun, RunWithContext (CRD pre-install block, ClientOnly swap),
                          installCRDs (every CRD is POSTed; AlreadyExists is ignored)
  pkg/action/upgrade.go   isDryRun
On top of the cluster model (Cluster.lean).
-/
import Helm.Model.Cluster

namespace Helm.DryRun
open Helm.Cluster

structure Mode where
  dryRun : Bool := false          -- the DryRun field
  option : String := ""           -- the DryRunOption field
  clientOnly : Bool := false
  skipCRDs : Bool := false
  deriving Repr, DecidableEq, Inhabited

/-- `isDryRun()`, the same for Install and Upgrade -/
def isDryRun (m : Mode) : Bool :=
  m.dryRun || m.option = "client" || m.option = "server" || m.option = "true"

/-- `installCRDs`: one create request per CRD; an existing one is left as it is -/
def installCRDs (crds : List Obj) (s : Store) : Store × List Ev :=
  crds.foldl (fun (acc : Store × List Ev) c =>
    (match acc.1.get? c.key with
     | some _ => acc.1
     | none => acc.1.put c, acc.2 ++ [.create c.key])) (s, [])

/-- the CRD block of `Install.RunWithContext` -/
def crdPhase (m : Mode) (crds : List Obj) (s : Store) : Store × List Ev :=
  if m.clientOnly || m.skipCRDs || crds.isEmpty then (s, [])
  else if isDryRun m then (s, [])        -- "On dry run, bail here"
  else installCRDs crds s

/-- install: CRD phase, then (unless client-only, where a printing client is swapped in) the
cluster side of the install proper -/
def installOp (rel ns : String) (m : Mode) (takeOwnership force : Bool) (crds manifest : List Obj) (s : Store) : OpRes :=
  let p := crdPhase m crds s
  if m.clientOnly then ⟨p.1, p.2, true⟩
  else
    let r := installCluster rel ns takeOwnership force (isDryRun m) manifest p.1
    ⟨r.store, p.2 ++ r.log, r.ok⟩

def upgradeOp (rel ns : String) (m : Mode) (takeOwnership force : Bool) (current target : List Obj) (s : Store) : OpRes :=
  upgradeCluster rel ns takeOwnership force (isDryRun m) current target s

end Helm.DryRun
