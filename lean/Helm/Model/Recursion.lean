/-
M13: the recursion guard of the template engine.
  pkg/engine/engine.go   includeFun (a counter per template name, checked against
                         recursionMaxNums before it is raised, lowered on return),
                         tplFun (one counter for nested `tpl` calls, same discipline; the
                         counters are the one map shared by every include and tpl closure of
                         a render)
A render is a tree of nested calls: a node is a named template or a `tpl` text, its body is
the list of nodes it calls in order, `ctr` says which counter a node charges (its name, or
the one tpl counter).  The Go stack is `fuel`: a call at fuel 0 is the fatal stack overflow
that no `recover` catches.  Not modelled: what the templates print besides the calls,
`define`s made inside a tpl text (new names at run time), the `template` action (bounded by
text/template's own maxExecDepth), evaluation cost (a branching cycle takes exponential time
before it fails; it still ends).
-/
namespace Helm.Recursion

structure Prog where
  body : Nat → List Nat      -- node ↦ the nodes it calls, in order
  ctr : Nat → Nat            -- node ↦ the counter it charges
  max : Nat                  -- recursionMaxNums
  shared : Bool := true      -- tpl hands the render's counters to its clone (false: a fresh map)
  isTpl : Nat → Bool := fun _ => false

inductive Res where
  | ok (trace : List Nat)    -- the nodes entered, in order
  | err (ctr : Nat)          -- "nested reference name" / "too deeply nested tpl calls"
  | fatal                    -- stack exhausted
  deriving Repr, DecidableEq, Inhabited

def bump (cnt : Nat → Nat) (c : Nat) : Nat → Nat := fun x => if x = c then cnt x + 1 else cnt x

/-- sequencing of the calls of one body: the first failure is the result -/
def seqStep (f : Nat → Res) (acc : Res) (n : Nat) : Res :=
  match acc with
  | .ok t => (match f n with
    | .ok t' => .ok (t ++ t')
    | r => r)
  | r => r

/-- one call: the guard, the counter, the body -/
def call (p : Prog) : Nat → (Nat → Nat) → Nat → Res
  | 0, _, _ => .fatal
  | fuel + 1, cnt, node =>
    if cnt (p.ctr node) > p.max then .err (p.ctr node)
    else
      let cnt1 := bump cnt (p.ctr node)
      -- a clone with a fresh map forgets every counter but (as the closure is new) its own
      let cnt2 := if p.isTpl node && !p.shared then (fun _ => 0) else cnt1
      (p.body node).foldl (seqStep (call p fuel cnt2)) (.ok [node])

def render (p : Prog) (fuel : Nat) (root : Nat) : Res := call p fuel (fun _ => 0) root

/-- how much the counters below `k` can still grow -/
def slack (max : Nat) (cnt : Nat → Nat) : Nat → Nat
  | 0 => 0
  | k + 1 => slack max cnt k + (max + 1 - cnt k)

end Helm.Recursion
