/-
M1: value trees and the merging / coalescing functions.
  pkg/chart/v2/loader/load.go     MergeMaps
  pkg/chart/v2/util/coalesce.go   coalesceTablesFullKey (CoalesceTables / MergeTables),
                                  coalesceValues, coalesceGlobals, coalesceDeps, coalesce
The model is value-semantic (no aliasing): any visible effect of Go map aliasing shows up as a
model/implementation disagreement.  Core Lean only.
-/
namespace Helm.Values

mutual
  /-- A decoded YAML/JSON value. Numbers are opaque (canonical text). -/
  inductive Val where
    | null
    | bool (b : Bool)
    | num (s : String)
    | str (s : String)
    | list (l : VList)
    | tbl (t : Tbl)
  inductive VList where
    | nil
    | cons (v : Val) (r : VList)
  /-- A map, as an association list (keys unique for decoded input; `get?` reads the first). -/
  inductive Tbl where
    | nil
    | cons (k : String) (v : Val) (r : Tbl)
end

deriving instance Inhabited for Val, VList, Tbl

namespace Tbl

def get? : Tbl → String → Option Val
  | .nil, _ => none
  | .cons k v r, x => if k = x then some v else get? r x

/-- `m[x] = v` -/
def set : Tbl → String → Val → Tbl
  | .nil, x, v => .cons x v .nil
  | .cons k w r, x, v => if k = x then .cons k v r else .cons k w (set r x v)

/-- `delete(m, x)` (every binding of `x`). -/
def erase : Tbl → String → Tbl
  | .nil, _ => .nil
  | .cons k w r, x => if k = x then erase r x else .cons k w (erase r x)

def keys : Tbl → List String
  | .nil => []
  | .cons k _ r => k :: keys r

def contains (t : Tbl) (x : String) : Bool := (t.get? x).isSome

def isEmpty : Tbl → Bool
  | .nil => true
  | _ => false

end Tbl

/-! ### lists -/

def VList.length : VList → Nat
  | .nil => 0
  | .cons _ r => length r + 1

def VList.get? : VList → Nat → Option Val
  | .nil, _ => none
  | .cons v _, 0 => some v
  | .cons _ r, n + 1 => get? r n

/-- `list[i] = v`, extending with nils as `setIndex` does. -/
def VList.setAt : VList → Nat → Val → VList
  | .nil, 0, v => .cons v .nil
  | .nil, n + 1, v => .cons .null (setAt .nil n v)
  | .cons _ r, 0, v => .cons v r
  | .cons w r, n + 1, v => .cons w (setAt r n v)

def VList.snoc : VList → Val → VList
  | .nil, v => .cons v .nil
  | .cons w r, v => .cons w (snoc r v)

def Val.isTable : Val → Bool
  | .tbl _ => true
  | _ => false

def Val.isNull : Val → Bool
  | .null => true
  | _ => false

/-! ### loader.MergeMaps -/

/-- The second loop of `MergeMaps(a, b)`: `out` starts as a copy of `a`; bindings of `b` are applied in turn. -/
def mergeInto (out : Tbl) : Tbl → Tbl
  | .nil => out
  | .cons k (.tbl vt) rest =>
    match out.get? k with
    | some (.tbl bt) => mergeInto (out.set k (.tbl (mergeInto bt vt))) rest
    | _ => mergeInto (out.set k (.tbl vt)) rest
  | .cons k v rest => mergeInto (out.set k v) rest

/-- `loader.MergeMaps(a, b)`: `b` wins. -/
def mergeMaps (a b : Tbl) : Tbl := mergeInto a b

/-! ### coalesceTablesFullKey -/

/-- `coalesceTablesFullKey(dst, src, merge)` for non-nil maps: the loop over `src`; `dst` wins,
and (unless `merge`) a null in `dst` at a key of `src` deletes the key. -/
def coalesceTables (merge : Bool) (dst : Tbl) : Tbl → Tbl
  | .nil => dst
  | .cons k val rest =>
    match dst.get? k with
    | none => coalesceTables merge (dst.set k val) rest
    | some dv =>
      if !merge && dv.isNull then coalesceTables merge (dst.erase k) rest
      else match val, dv with
        | .tbl st, .tbl dt => coalesceTables merge (dst.set k (.tbl (coalesceTables merge dt st))) rest
        | _, _ => coalesceTables merge dst rest

/-! ### Charts -/

mutual
  inductive Chart where
    | mk (name : String) (values : Tbl) (deps : ChartList)
  inductive ChartList where
    | nil
    | cons (c : Chart) (r : ChartList)
end

instance : Inhabited ChartList := ⟨.nil⟩
instance : Inhabited Chart := ⟨.mk "" .nil .nil⟩

def Chart.name : Chart → String | .mk n _ _ => n
def Chart.values : Chart → Tbl | .mk _ v _ => v
def Chart.deps : Chart → ChartList | .mk _ _ d => d

def ChartList.names : ChartList → List String
  | .nil => []
  | .cons c r => c.name :: names r

def ChartList.toList : ChartList → List Chart
  | .nil => []
  | .cons c r => c :: toList r

/-- `coalesceValues(c, v, merge)`: the chart's own defaults are put under the given values. -/
def coalesceValuesLoop (depNames : List String) (merge : Bool) (v : Tbl) : Tbl → Tbl
  | .nil => v
  | .cons key val rest =>
    match v.get? key with
    | none => coalesceValuesLoop depNames merge (v.set key val) rest
    | some value =>
      if value.isNull && !merge then coalesceValuesLoop depNames merge (v.erase key) rest
      else match value, val with
        | .tbl dest, .tbl src =>
          let m := if depNames.contains key then true else merge   -- childChartMergeTrue
          coalesceValuesLoop depNames merge (v.set key (.tbl (coalesceTables m dest src))) rest
        | _, _ => coalesceValuesLoop depNames merge v rest

def coalesceValues (c : Chart) (merge : Bool) (v : Tbl) : Tbl :=
  coalesceValuesLoop c.deps.names merge v c.values

def globalKey : String := "global"

/-- The loop of `coalesceGlobals` over the source globals `sg`, accumulating into `dg`
(value-semantic: `copyMap` is a copy). -/
def globalsLoop (dg : Tbl) : Tbl → Tbl
  | .nil => dg
  | .cons key val rest =>
    match val with
    | .tbl vt =>
      match dg.get? key with
      | none => globalsLoop (dg.set key (.tbl vt)) rest
      | some (.tbl destvmap) => globalsLoop (dg.set key (.tbl (coalesceTables true vt destvmap))) rest
      | some _ => globalsLoop dg rest                 -- "Conflict: cannot merge map onto non-map"
    | _ =>
      match dg.get? key with
      | some (.tbl _) => globalsLoop dg rest            -- "key is table. Skipping"
      | _ => globalsLoop (dg.set key val) rest

/-- `coalesceGlobals(dest, src)`: returns the new `dest`. -/
def coalesceGlobals (dest src : Tbl) : Tbl :=
  match dest.get? globalKey, src.get? globalKey with
  | some (.tbl dg), some (.tbl sg) => dest.set globalKey (.tbl (globalsLoop dg sg))
  | none, some (.tbl sg) => dest.set globalKey (.tbl (globalsLoop .nil sg))
  | some (.tbl dg), none => dest.set globalKey (.tbl dg)
  | none, none => dest.set globalKey (.tbl .nil)
  | _, _ => dest     -- a non-table `global` on either side: skipped with a warning

/-- `if _, ok := dest[name]; !ok { dest[name] = map{} }` -/
def ensureSection (dest : Tbl) (n : String) : Tbl :=
  match dest.get? n with
  | none => dest.set n (.tbl .nil)
  | some _ => dest

inductive Res (α : Type) where
  | ok (a : α)
  | err (msg : String)
  deriving Inhabited

mutual
  /-- `coalesce(ch, dest, merge)` -/
  def coalesce (merge : Bool) : Chart → Tbl → Res Tbl
    | .mk _ values deps, dest =>
      let dest1 := coalesceValuesLoop deps.names merge dest values
      coalesceDeps merge deps dest1
  /-- `coalesceDeps`: the loop over the chart's dependencies. -/
  def coalesceDeps (merge : Bool) : ChartList → Tbl → Res Tbl
    | .nil, dest => .ok dest
    | .cons sub rest, dest =>
      match (ensureSection dest sub.name).get? sub.name with
      | some (.tbl dvmap) =>
        match coalesce merge sub (coalesceGlobals dvmap (ensureSection dest sub.name)) with
        | .ok r => coalesceDeps merge rest ((ensureSection dest sub.name).set sub.name (.tbl r))
        | .err e => .err e
      | _ => .err ("type mismatch on " ++ sub.name)
end

/-- `CoalesceValues(chrt, vals)` / `MergeValues(chrt, vals)` -/
def coalesceTop (merge : Bool) (c : Chart) (vals : Tbl) : Res Tbl := coalesce merge c vals

/-! ### Paths -/

/-- Descend through tables along a path of keys. -/
def lookupPath : Tbl → List String → Option Val
  | _, [] => none
  | t, [k] => t.get? k
  | t, k :: p => match t.get? k with
    | some (.tbl t') => lookupPath t' p
    | _ => none

end Helm.Values
