/-
M4: storage drivers.
  pkg/storage/storage.go        makeKey
  pkg/storage/driver/memory.go  Memory (records.go, labels.go)
  pkg/storage/driver/secrets.go, cfgmaps.go  (one shared model: a Kubernetes object store keyed
                                by object name, labels = user labels ∪ system labels, body = encoded release)
Spec: a map from (release name, revision) to release.
Not modelled: the body codec (json+gzip+base64; the harness compares decoded releases),
namespaces (one namespace), timestamps (`createdAt` / `modifiedAt` label values).
-/
namespace Helm.Storage

/-- What a stored release is, as far as the drivers look at it; `payload` stands for everything
else (chart, config, manifest, hooks, info): opaque, compared for equality only. -/
structure Rel where
  name : String
  version : Nat
  status : String
  labels : List (String × String) := []      -- user labels
  payload : String := ""
  deriving Repr, DecidableEq, Inhabited

inductive Out where
  | ok
  | exists
  | notFound
  | invalidKey
  | other                    -- any other error
  | panic                    -- nil dereference in the driver
  | rel (r : Rel)
  | rels (rs : List Rel)
  deriving Repr, DecidableEq, Inhabited

/-- `makeKey(name, version)` -/
def makeKey (name : String) (version : Nat) : String :=
  "sh.helm.release.v1." ++ name ++ ".v" ++ toString version

/-- system labels a record is queried by (memory: exactly these; object drivers: these among others) -/
def sysLabels (r : Rel) : List (String × String) :=
  [("name", r.name), ("owner", "helm"), ("status", r.status), ("version", toString r.version)]

def lookup (k : String) : List (String × String) → Option String
  | [] => none
  | (k', v) :: r => if k' = k then some v else lookup k r

/-- `labels.match`: every queried key has the queried value (missing = ""). -/
def matchLabels (have_ : List (String × String)) (q : List (String × String)) : Bool :=
  q.all fun (k, v) => (lookup k have_).getD "" = v

/-! ## Spec: a map from key to release -/

abbrev Spec := List (String × Rel)      -- association list, keys unique

def Spec.get? (s : Spec) (k : String) : Option Rel := (s.find? (·.1 = k)).map (·.2)

inductive Op where
  | create (key : String) (r : Rel)
  | get (key : String)
  | update (key : String) (r : Rel)
  | delete (key : String)
  | list (status : Option String)                 -- filter: status = s, or everything
  | query (q : List (String × String))            -- over the system labels
  deriving Repr, DecidableEq, Inhabited

def specStep (s : Spec) : Op → Spec × Out
  | .create k r => if (s.get? k).isSome then (s, .exists) else (s ++ [(k, r)], .ok)
  | .get k => match s.get? k with
    | some r => (s, .rel r)
    | none => (s, .notFound)
  | .update k r => if (s.get? k).isSome then (s.map fun kv => if kv.1 = k then (k, r) else kv, .ok) else (s, .notFound)
  | .delete k => match s.get? k with
    | some r => (s.filter (·.1 ≠ k), .rel r)
    | none => (s, .notFound)
  | .list st => (s, .rels ((s.map (·.2)).filter fun r => match st with | none => true | some x => r.status = x))
  | .query q =>
    let rs := (s.map (·.2)).filter fun r => matchLabels (sysLabels r) q
    (s, if rs.isEmpty then .notFound else .rels rs)

/-! ## Memory driver -/

/-- `strings.Split(strings.TrimPrefix(key, prefix), ".v")` must have exactly two elements and
the second must be an integer (`strconv.Atoi`).  Text is `List Char`. -/
def stripPrefix (p s : List Char) : List Char := if p.isPrefixOf s then s.drop p.length else s

/-- number of (non-overlapping, left-to-right) occurrences of ".v" -/
def countDotV : List Char → Nat
  | '.' :: 'v' :: r => countDotV r + 1
  | _ :: r => countDotV r
  | [] => 0

def afterDotV : List Char → List Char
  | '.' :: 'v' :: r => r
  | _ :: r => afterDotV r
  | [] => []

def isInt (s : List Char) : Bool :=
  match s with
  | '-' :: r | '+' :: r => !r.isEmpty && r.all Char.isDigit
  | r => !r.isEmpty && r.all Char.isDigit

/-- does `Memory.Get/Delete` accept the key? -/
def memKeyOk (key : String) : Bool :=
  let k := stripPrefix "sh.helm.release.v1.".toList key.toList
  countDotV k = 1 && isInt (afterDotV k)

/-- release name as `Memory.Get/Delete` derive it from the key -/
def beforeDotV : List Char → List Char
  | '.' :: 'v' :: _ => []
  | c :: r => c :: beforeDotV r
  | [] => []

def memKeyName (key : String) : String :=
  String.ofList (beforeDotV (stripPrefix "sh.helm.release.v1.".toList key.toList))

/-- per release name, the records (key, release) sorted by version -/
abbrev Mem := List (String × List (String × Rel))

def Mem.recs (m : Mem) (name : String) : Option (List (String × Rel)) := (m.find? (·.1 = name)).map (·.2)

def Mem.setRecs (m : Mem) (name : String) (rs : List (String × Rel)) : Mem :=
  if (m.find? (·.1 = name)).isSome then m.map fun e => if e.1 = name then (name, rs) else e
  else m ++ [(name, rs)]

def insertSorted (e : String × Rel) : List (String × Rel) → List (String × Rel)
  | [] => [e]
  | x :: r => if e.2.version < x.2.version then e :: x :: r else x :: insertSorted e r

def memStep (m : Mem) : Op → Mem × Out
  | .create k r =>
    match m.recs r.name with
    | some rs => if rs.any (·.1 = k) then (m, .exists) else (m.setRecs r.name (insertSorted (k, r) rs), .ok)
    | none => (m.setRecs r.name [(k, r)], .ok)
  | .get k =>
    if !memKeyOk k then (m, .invalidKey)
    else match (m.recs (memKeyName k)).bind fun rs => rs.find? (·.1 = k) with
      | some e => (m, .rel e.2)
      | none => (m, .notFound)
  | .update k r =>
    match m.recs r.name with
    | some rs => if rs.any (·.1 = k) then (m.setRecs r.name (rs.map fun e => if e.1 = k then (k, r) else e), .ok) else (m, .notFound)
    | none => (m, .notFound)
  | .delete k =>
    if !memKeyOk k then (m, .invalidKey)
    else match m.recs (memKeyName k) with
      | some rs => match rs.find? (·.1 = k) with
        | some e => (m.setRecs (memKeyName k) (rs.filter (·.1 ≠ k)), .rel e.2)
        | none => (m, .notFound)
      | none => (m, .notFound)
  | .list st =>
    (m, .rels ((m.flatMap fun e => e.2.map (·.2)).filter fun r => match st with | none => true | some x => r.status = x))
  | .query q =>
    let rs := (m.flatMap fun e => e.2.map (·.2)).filter fun r => matchLabels (sysLabels r) q
    (m, if rs.isEmpty then .notFound else .rels rs)

/-! ## Kubernetes-object drivers (Secrets / ConfigMaps) -/

structure Obj where
  labels : List (String × String)
  body : Option Rel            -- `none`: the data does not decode
  deriving Repr, DecidableEq, Inhabited

abbrev Objs := List (String × Obj)     -- by object name

def Objs.get? (s : Objs) (k : String) : Option Obj := (s.find? (·.1 = k)).map (·.2)

/-- labels of the stored object: the system labels override user labels of the same name
(`lbs.fromMap(rls.Labels)` first, then `lbs.set("name", …)` …). -/
def objLabels (r : Rel) : List (String × String) := sysLabels r ++ r.labels

/-- `getPanics` = true describes a driver that touches the decoded release before checking the
decode error (nil dereference on an undecodable record), as `Secrets.Get` did on the pinned tree
before the repair `fix: Secrets.Get returns the decode error ...`; both object drivers are now
the `getPanics = false` instance (the driver of the correspondence uses it for both). -/
def objStep (getPanics : Bool) (s : Objs) : Op → Objs × Out
  | .create k r => if (s.get? k).isSome then (s, .exists) else (s ++ [(k, ⟨objLabels r, some r⟩)], .ok)
  | .get k => match s.get? k with
    | none => (s, .notFound)
    | some o => match o.body with
      | some r => (s, .rel r)
      | none => (s, if getPanics then .panic else .other)
  | .update k r =>
    if (s.get? k).isSome then (s.map fun kv => if kv.1 = k then (k, ⟨objLabels r, some r⟩) else kv, .ok)
    else (s, .other)                  -- the API's Update of a missing object fails
  | .delete k => match s.get? k with
    | none => (s, .notFound)
    | some o => match o.body with
      | some r => (s.filter (·.1 ≠ k), .rel r)
      | none => (s, if getPanics then .panic else .other)
  | .list st =>
    let rs := (s.filter fun kv => lookup "owner" kv.2.labels = some "helm").filterMap (·.2.body)
    (s, .rels (rs.filter fun r => match st with | none => true | some x => r.status = x))
  | .query q =>
    let items := s.filter fun kv => q.all fun (k, v) => lookup k kv.2.labels = some v
    if items.isEmpty then (s, .notFound) else (s, .rels (items.filterMap (·.2.body)))

def run {σ} (step : σ → Op → σ × Out) : σ → List Op → σ × List Out
  | s, [] => (s, [])
  | s, op :: ops =>
    let (s', o) := step s op
    let (s'', os) := run step s' ops
    (s'', o :: os)

end Helm.Storage
