/-
M9 (index): pkg/repo/index.go loadIndex / SortEntries / ChartVersions.Less / IndexFile.Get,
pkg/registry/util.go GetTagMatchingVersionOrConstraint, internal/resolver Resolve's selection loop.
Parameters supplied by the harness from the real libraries: the parse of a version string
(Masterminds semver.NewVersion, which coerces "1.2" or "v1"), the verdict of a constraint on a
version (`sat`), whether an entry passes chart.Metadata.Validate (`valid`).
SemVer-2 precedence itself is implemented here (`Ver.key`) and compared with the library.
-/
namespace Helm.Index

/-- a prerelease identifier: numeric or alphanumeric -/
inductive Ident where
  | num (n : Nat)
  | alnum (s : String)
  deriving Repr, DecidableEq, Inhabited

structure Ver where
  major : Nat
  minor : Nat
  patch : Nat
  pre : List Ident := []
  deriving Repr, DecidableEq, Inhabited

/-- order-preserving, prefix-free encoding of an identifier: numeric < alphanumeric; numeric by
value; alphanumeric by ASCII order, a proper prefix being smaller. -/
def identKey : Ident → List Nat
  | .num n => [0, n]
  | .alnum s => 1 :: (s.toList.map fun c => c.toNat + 1) ++ [0]

/-- SemVer-2 precedence as lexicographic order of a key: a release is above all its
prereleases; a longer prerelease list with equal prefix is higher. Build metadata is ignored. -/
def Ver.key (v : Ver) : List Nat :=
  [v.major, v.minor, v.patch] ++ (if v.pre.isEmpty then [1] else 0 :: v.pre.flatMap identKey)

def Ver.le (a b : Ver) : Bool := decide (a.key ≤ b.key)

structure Entry where
  id : Nat                    -- position in the file
  version : String            -- as written
  ver : Option Ver            -- none: does not parse
  valid : Bool := true        -- passes Validate (modulo the skippable errors)
  hasURL : Bool := true
  sat : Bool := false         -- verdict of the query's constraint on this version (when it parses)
  deriving Repr, DecidableEq, Inhabited

inductive Res (α : Type) where
  | ok (a : α)
  | err
  | panic
  deriving Repr, DecidableEq, Inhabited

/-- key used for sorting: unparsable versions sort last (`Less` "pushes them to the back"). -/
def Entry.key (e : Entry) : List Nat := match e.ver with
  | some v => 1 :: v.key
  | none => [0]

/-- descending by precedence -/
def geEntry (a b : Entry) : Bool := decide (b.key ≤ a.key)

/-- the entries `loadIndex` keeps: null entries and invalid entries are removed -/
def keptEntries (raw : List (Option Entry)) : List Entry :=
  raw.filterMap fun o => match o with
    | none => none
    | some e => if e.valid then some e else none

/-- `loadIndex` for the versions of one chart: null and invalid entries are dropped, then
`SortEntries`.  (On the pinned tree a null entry was announced as skipped but left in the slice,
and `Less` dereferenced it: repaired by `fix: drop empty entries when loading a repository index`.) -/
def loadEntries (raw : List (Option Entry)) : Res (List (Option Entry)) :=
  .ok (((keptEntries raw).mergeSort geEntry).map some)

/-- first entry satisfying `p`; a null entry met before is a nil dereference -/
def firstMatch (p : Entry → Bool) : List (Option Entry) → Res (Option Entry)
  | [] => .ok none
  | none :: _ => .panic
  | some e :: rest => if p e then .ok (some e) else firstMatch p rest

/-- `IndexFile.Get(name, version)` on the loaded versions `vs` of that chart.
`constraintOk`: `semver.NewConstraint(version)` succeeded ("*" when version is empty). -/
def get (vs : List (Option Entry)) (version : String) (constraintOk : Bool) : Res Entry :=
  if vs.isEmpty then .err
  else if !constraintOk then .err
  else
    let exact : Res (Option Entry) :=
      if version.isEmpty then .ok none else firstMatch (fun e => e.version = version) vs
    match exact with
    | .panic => .panic
    | .err => .err
    | .ok (some e) => .ok e
    | .ok none =>
      match firstMatch (fun e => e.ver.isSome && e.sat) vs with
      | .panic => .panic
      | .err => .err
      | .ok (some e) => .ok e
      | .ok none => .err

/-- `GetTagMatchingVersionOrConstraint(tags, versionString)`; tags as entries (no nulls). -/
def tagMatch (tags : List Entry) (version : String) (constraintOk : Bool) : Res Entry :=
  match (if version.isEmpty then none else tags.find? fun e => e.version = version) with
  | some e => .ok e
  | none =>
    if !constraintOk then .err
    else match tags.find? fun e => e.ver.isSome && e.sat with
      | some e => .ok e
      | none => .err

/-- The selection loop of `Resolver.Resolve` over a repository's sorted versions. -/
def resolvePick (vs : List Entry) : Option Entry :=
  vs.find? fun e => e.ver.isSome && e.hasURL && e.sat

end Helm.Index
