/-
M11: concurrent installs / upgrades of one release name, as interleaved programs over the
shared release storage.
  pkg/action/install.go   availableName (History), Releases.Create(pending-install),
                          resource creation, Releases.Update(deployed)
  pkg/action/upgrade.go   prepareUpgrade (Releases.Last, errPending, Releases.Deployed when the
                          last revision is not the deployed one), Releases.Create(pending-upgrade),
                          resource update, recordRelease(original superseded), Releases.Update(deployed)
  pkg/storage/driver      Create is an atomic create-if-absent
One step of a process = one storage call or the cluster mutation (the property's granularity).
No faults, no history limit (pruning deletes records: see DESIGN.md), install without --replace.
-/
import Helm.Model.Ledger

namespace Helm.Conc
open Helm.Ledger

inductive Kind where
  | install | upgrade
  deriving Repr, DecidableEq, Inhabited

inductive Pc where
  | start
  | read (base : Nat)                      -- upgrade: Last was read (not pending, not deployed): Deployed is next
  | ready (base : Nat) (cur : Option Nat)  -- all reads done: the next call is Create of base+1
  | created (rev : Nat) (cur : Option Nat) -- own record stored (pending)
  | mutated (rev : Nat) (cur : Option Nat) -- cluster changed
  | superseded (rev : Nat)                 -- upgrade: the previous revision was marked superseded
  | done (ok : Bool)
  deriving Repr, DecidableEq, Inhabited

structure Proc where
  kind : Kind
  payload : Nat
  pc : Pc := .start
  touched : Bool := false       -- has created / changed / deleted release resources
  made : Option Nat := none     -- the revision whose record it created
  deriving Repr, DecidableEq, Inhabited

def revs (l : Ledger) : List Nat := l.map (·.rev)

/-- one atomic step of a process against the shared ledger -/
def stepProc (p : Proc) (l : Ledger) : Proc × Ledger :=
  match p.pc with
  | .start =>
    match p.kind with
    | .install =>
      -- availableName: the name must have no history
      if l.isEmpty then ({ p with pc := .ready 0 none }, l) else ({ p with pc := .done false }, l)
    | .upgrade =>
      match last? l with
      | none => ({ p with pc := .done false }, l)                          -- "has no deployed releases"
      | some r =>
        if r.status.isPending then ({ p with pc := .done false }, l)       -- errPending
        else if r.status = .deployed then ({ p with pc := .ready r.rev (some r.rev) }, l)
        else ({ p with pc := .read r.rev }, l)
  | .read b =>
    -- Releases.Deployed; a failed/superseded last revision stands in when there is none
    ({ p with pc := .ready b (some (((deployed? l).map (·.rev)).getD b)) }, l)
  | .ready b cur =>
    let r := b + 1
    if (revs l).contains r then ({ p with pc := .done false }, l)          -- already exists
    else
      let st := match p.kind with | .install => Status.pendingInstall | .upgrade => Status.pendingUpgrade
      ({ p with pc := .created r cur, made := some r }, l ++ [⟨r, st, p.payload⟩])
  | .created r cur => ({ p with pc := .mutated r cur, touched := true }, l)
  | .mutated r cur =>
    match cur with
    | none => ({ p with pc := .done true }, setStatus l r .deployed)        -- install: one Update
    | some c => ({ p with pc := .superseded r }, setStatus l c .superseded)
  | .superseded r => ({ p with pc := .done true }, setStatus l r .deployed)
  | .done _ => (p, l)

structure World where
  ledger : Ledger
  procs : List Proc
  deriving Repr, DecidableEq, Inhabited

/-- process `i` takes its next step -/
def step (w : World) (i : Nat) : World :=
  match w.procs[i]? with
  | none => w
  | some p =>
    let (p', l') := stepProc p w.ledger
    ⟨l', w.procs.set i p'⟩

def run (w : World) (schedule : List Nat) : World := schedule.foldl step w

def Proc.isDone (p : Proc) : Bool := match p.pc with | .done _ => true | _ => false

/-! ### the property at quiescence -/

def deployedCount (l : Ledger) : Nat := (l.filter (·.status = .deployed)).length

def nodup : List Nat → Bool
  | [] => true
  | x :: r => !r.contains x && nodup r

/-- well-formed history: unique revisions, at most one deployed, no revision left pending -/
def wellFormed (l : Ledger) : Bool :=
  nodup (revs l) && deployedCount l ≤ 1 && l.all (fun r => !r.status.isPending)

/-- what the property demands of a world in which every operation has returned -/
def quiescentOk (w : World) : Bool :=
  wellFormed w.ledger &&
  nodup (w.procs.filterMap (·.made)) &&                                   -- one creator per revision
  w.procs.all (fun p => match p.pc with
    | .done true => p.made.isSome
    | .done false => !p.touched && p.made.isNone                           -- a loser touched nothing
    | _ => true)

/-- all sequences of `n` steps made of `a` steps of process 0 and `b` of process 1 (structural in `n`) -/
def pick : Nat → Nat → Nat → List (List Nat)
  | 0, _, _ => [[]]
  | n + 1, a, b =>
    (if a > 0 then (pick n (a - 1) b).map (0 :: ·) else []) ++
    (if b > 0 then (pick n a (b - 1)).map (1 :: ·) else [])

/-- all interleavings of `a` steps of process 0 and `b` steps of process 1 -/
def interleavings (a b : Nat) : List (List Nat) := pick (a + b) a b

end Helm.Conc
