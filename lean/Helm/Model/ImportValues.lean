/-
pkg/chart/v2/util/dependencies.go processImportValues: the type switch over the entries of a
dependency's `import-values` list with its type assertions on `iv["child"]`, `iv["parent"]`
(unchecked on the pinned tree: a panic; checked since the repair `fix: return an error for
import-values entries whose child or parent is not a string`).
Only the crash behaviour is modelled here (what is imported is not).
-/
import Helm.Model.Values
namespace Helm.ImportValues
open Helm.Values

inductive Outcome where
  | ok
  | err        -- "child and parent must be strings"
  | panic
  deriving Repr, DecidableEq, Inhabited

def isStr : Option Val → Bool
  | some (.str _) => true
  | _ => false

/-- one entry of `import-values` as decoded from YAML -/
def entryOutcome : Val → Outcome
  | .tbl t => if isStr (t.get? "child") && isStr (t.get? "parent") then .ok else .err
  | _ => .ok        -- a string is the short form; any other type is skipped by the switch

def outcome : List Val → Outcome
  | [] => .ok
  | e :: r => match entryOutcome e with
    | .panic => .panic
    | .err => .err
    | .ok => outcome r

end Helm.ImportValues
