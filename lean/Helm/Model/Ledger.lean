/-
M5a: the release ledger and the four action programs at the level of their *storage* calls.
  pkg/action/install.go   RunWithContext / performInstall / failRelease / replaceRelease / availableName
  pkg/action/upgrade.go   RunWithContext / prepareUpgrade / performUpgrade / releasingUpgrade / failRelease
  pkg/action/rollback.go  Run / prepareRollback / performRollback
  pkg/action/uninstall.go Run / purgeReleases
  pkg/storage/storage.go  Create / removeLeastRecent / Last / Deployed / History
The cluster side is abstracted to the outcome of each *phase* (reachability+build+ownership
checks, pre-hook, resource create/update, wait, post-hook, cleanup, delete ...): every phase and
every storage write consumes one decision `ok | fail | crash`.  `crash` = the process dies at
that call: the operation stops and the ledger stays as it is.
Storage reads always succeed (the property's fault model).  Records are value-semantic: the
memory driver's pointer aliasing is outside this model (faults are exercised on the
Secret/ConfigMap drivers).
-/
namespace Helm.Ledger

inductive Status where
  | unknown | deployed | uninstalled | superseded | failed | uninstalling
  | pendingInstall | pendingUpgrade | pendingRollback
  deriving Repr, DecidableEq, Inhabited

def Status.isPending : Status → Bool
  | .pendingInstall | .pendingUpgrade | .pendingRollback => true
  | _ => false

structure Rec where
  rev : Nat
  status : Status
  payload : Nat          -- identifies chart + manifest + values of the revision
  deriving Repr, DecidableEq, Inhabited

abbrev Ledger := List Rec      -- the stored records of one release name, in no particular order

inductive Dec where
  | ok | fail | crash
  deriving Repr, DecidableEq, Inhabited

/-- decisions of one operation: cluster phases by name, storage writes in program order -/
structure Faults where
  pre : Dec := .ok             -- reachability / build / ownership checks / namespace / CRDs
  preHook : Dec := .ok
  resources : Dec := .ok       -- KubeClient.Create / Update of the manifest
  wait : Dec := .ok
  postHook : Dec := .ok
  cleanup : Dec := .ok         -- cleanup-on-fail deletes
  delete : Dec := .ok          -- uninstall: deleting the manifest's resources
  st : List Dec := []          -- storage writes (Create/Update/Delete), in program order; missing = ok
  deriving Repr, DecidableEq, Inhabited

inductive Outcome where
  | success
  | error
  | crashed
  deriving Repr, DecidableEq, Inhabited

/-! ### storage primitives -/

def get? (l : Ledger) (rev : Nat) : Option Rec := l.find? (·.rev = rev)

def maxRev (l : Ledger) : Nat := l.foldl (fun m r => max m r.rev) 0

/-- `Storage.Last`: the record with the highest revision -/
def last? (l : Ledger) : Option Rec := if l.isEmpty then none else get? l (maxRev l)

/-- `Storage.Deployed`: the deployed record with the highest revision -/
def deployed? (l : Ledger) : Option Rec :=
  let ds := l.filter (·.status = .deployed)
  if ds.isEmpty then none else get? ds (maxRev ds)

def setStatus (l : Ledger) (rev : Nat) (s : Status) : Ledger :=
  l.map fun r => if r.rev = rev then { r with status := s } else r

/-- state threaded through a program: ledger, remaining storage decisions, write log -/
structure St where
  ledger : Ledger
  decs : List Dec
  writes : List String := []     -- log of attempted storage writes (for the correspondence)
  deriving Repr, DecidableEq, Inhabited

def nextDec (s : St) : Dec × St :=
  match s.decs with
  | [] => (.ok, s)
  | d :: r => (d, { s with decs := r })

/-- `driver.Create(key, rec)`: fails if the key exists -/
def stCreate (s : St) (r : Rec) : Dec × St :=
  let (d, s) := nextDec s
  let s := { s with writes := s.writes ++ [s!"create {r.rev} {repr r.status}"] }
  match d with
  | .ok => if (get? s.ledger r.rev).isSome then (.fail, s) else (.ok, { s with ledger := s.ledger ++ [r] })
  | d => (d, s)

/-- `driver.Update(key, rec)`: the whole record is rewritten; fails if missing -/
def stUpdate (s : St) (r : Rec) : Dec × St :=
  let (d, s) := nextDec s
  let s := { s with writes := s.writes ++ [s!"update {r.rev} {repr r.status}"] }
  match d with
  | .ok => if (get? s.ledger r.rev).isSome then (.ok, { s with ledger := s.ledger.map fun x => if x.rev = r.rev then r else x }) else (.fail, s)
  | d => (d, s)

def stDelete (s : St) (rev : Nat) : Dec × St :=
  let (d, s) := nextDec s
  let s := { s with writes := s.writes ++ [s!"delete {rev}"] }
  match d with
  | .ok => if (get? s.ledger rev).isSome then (.ok, { s with ledger := s.ledger.filter (·.rev ≠ rev) }) else (.fail, s)
  | d => (d, s)

/-- ascending sort (`relutil.SortByRevision` on distinct revisions), structurally recursive so
that it evaluates in the kernel -/
def insertAsc (x : Nat) : List Nat → List Nat
  | [] => [x]
  | y :: r => if x ≤ y then x :: y :: r else y :: insertAsc x r

def sortAsc : List Nat → List Nat
  | [] => []
  | x :: r => insertAsc x (sortAsc r)

/-! ### Storage.Create with history pruning -/

/-- which revisions `removeLeastRecent(name, maximum)` decides to delete: oldest first, never the
latest deployed one, until `maximum` records are left -/
def toDelete (l : Ledger) (maximum : Nat) : List Nat :=
  if l.length ≤ maximum then []
  else
    let sorted := sortAsc (l.map (·.rev))
    let keep := (deployed? l).map (·.rev)
    let cands := sorted.filter fun r => some r ≠ keep
    cands.take (l.length - maximum)

/-- the same decision with the bound `removeLeastRecent` has had since the repair of the create race: the loop
stops at the first record whose revision is `newest` (the one about to be created) or later -/
def toDeleteBelow (l : Ledger) (maximum newest : Nat) : List Nat :=
  if l.length ≤ maximum then []
  else
    let sorted := sortAsc (l.map (·.rev))
    let keep := (deployed? l).map (·.rev)
    let cands := sorted.filter fun r => some r ≠ keep
    (cands.takeWhile (· < newest)).take (l.length - maximum)

/-- delete each candidate; failures are collected (the loop goes on); a crash stops everything -/
def pruneLoop : List Nat → St → Bool → Dec × St
  | [], s, anyFail => (if anyFail then .fail else .ok, s)
  | r :: rest, s, anyFail =>
    match stDelete s r with
    | (.crash, s') => (.crash, s')
    | (.fail, s') => pruneLoop rest s' true
    | (.ok, s') => pruneLoop rest s' anyFail

/-- `Storage.Create(rel)` with `MaxHistory = maxHistory` -/
def storageCreate (s : St) (maxHistory : Nat) (r : Rec) : Dec × St :=
  if maxHistory > 0 then
    match pruneLoop (toDelete s.ledger (maxHistory - 1)) s false with
    | (.ok, s') => stCreate s' r
    | (d, s') => (d, s')
  else stCreate s r

/-- `execHook` for one lifecycle event with `n` matching hooks: before each hook is created the
release is recorded once more with its current status (`cfg.recordRelease`, error ignored);
the phase decision `d` is the outcome of the last hook (the others succeed). -/
def hookPhase (s : St) (rel : Rec) : Nat → Dec → Dec × St
  | 0, _ => (.ok, s)
  | n + 1, d =>
    match stUpdate s rel with
    | (.crash, s') => (.crash, s')
    | (_, s') => if n = 0 then (d, s') else hookPhase s' rel n d

/-! ### uninstall -/

structure UninstallFlags where
  keepHistory : Bool := false
  dryRun : Bool := false
  disableHooks : Bool := false
  nHooks : Nat := 0            -- hooks the release has per lifecycle event
  deriving Repr, DecidableEq, Inhabited

/-- `purgeReleases`: delete every record, ascending; the first failure aborts -/
def purge : List Nat → St → Dec × St
  | [], s => (.ok, s)
  | r :: rest, s =>
    match stDelete s r with
    | (.ok, s') => purge rest s'
    | (d, s') => (d, s')

def revsAsc (l : Ledger) : List Nat := sortAsc (l.map (·.rev))

def uninstallOn (fl : UninstallFlags) (f : Faults) (s : St) : St × Outcome :=
  let l := s.ledger
  match f.pre with
  | .crash => (s, .crashed)
  | .fail => (s, .error)
  | .ok =>
  if fl.dryRun then (s, if l.isEmpty then .error else .success)
  else
  match last? l with
  | none => (s, .error)
  | some rel =>
    if rel.status = .uninstalled then
      if !fl.keepHistory then
        match purge (revsAsc l) s with
        | (.ok, s') => (s', .success)
        | (.crash, s') => (s', .crashed)
        | (.fail, s') => (s', .error)
      else (s, .error)
    else
      -- pre-delete hooks (the release is recorded as `uninstalling` by execHook itself)
      match hookPhase s { rel with status := .uninstalling } (if fl.disableHooks then 0 else fl.nHooks) f.preHook with
      | (.crash, s0) => (s0, .crashed)
      | (.fail, s0) => (s0, .error)
      | (.ok, s) =>
        match stUpdate s { rel with status := .uninstalling } with
        | (.crash, s1) => (s1, .crashed)
        | (_, s1) =>                                   -- the error is only logged
          match f.delete with
          | .crash => (s1, .crashed)
          | .fail => (s1, .error)                      -- record stays `uninstalling`
          | .ok =>
            match f.wait with
            | .crash => (s1, .crashed)
            | w =>
            match hookPhase s1 { rel with status := .uninstalling } (if fl.disableHooks then 0 else fl.nHooks) f.postHook with
            | (.crash, s1') => (s1', .crashed)
            | (ph, s1) =>
              let errs := w != .ok || ph != .ok
              if !fl.keepHistory then
                match purge (revsAsc s1.ledger) s1 with
                | (.crash, s2) => (s2, .crashed)
                | (.fail, s2) => (s2, .error)
                | (.ok, s2) => (s2, if errs then .error else .success)
              else
                match stUpdate s1 { rel with status := .uninstalled } with
                | (.crash, s2) => (s2, .crashed)
                | (_, s2) => (s2, if errs then .error else .success)

def uninstall (fl : UninstallFlags) (f : Faults) (l : Ledger) : St × Outcome :=
  uninstallOn fl f { ledger := l, decs := f.st }

/-! ### rollback -/

structure RollbackFlags where
  nHooks : Nat := 0
  version : Nat := 0            -- 0 = previous revision
  dryRun : Bool := false
  disableHooks : Bool := false
  cleanupOnFail : Bool := false
  maxHistory : Nat := 0
  deriving Repr, DecidableEq, Inhabited

def rollbackOn (fl : RollbackFlags) (f : Faults) (s : St) : St × Outcome :=
  let l := s.ledger
  match f.pre with
  | .crash => (s, .crashed)
  | .fail => (s, .error)
  | .ok =>
  match last? l with
  | none => (s, .error)
  | some cur =>
    let prev := if fl.version = 0 then cur.rev - 1 else fl.version
    match get? l prev with
    | none => (s, .error)
    | some prevRec =>
      let target : Rec := { rev := cur.rev + 1, status := .pendingRollback, payload := prevRec.payload }
      if fl.dryRun then (s, .success)
      else
      match storageCreate s fl.maxHistory target with
      | (.crash, s1) => (s1, .crashed)
      | (.fail, s1) => (s1, .error)
      | (.ok, s1) =>
        -- performRollback.  A failing pre- or post-rollback hook marks the new record failed
        -- (failRollback; the write's own error is ignored) -- since the repair in /repo.
        match hookPhase s1 target (if fl.disableHooks then 0 else fl.nHooks) f.preHook with
        | (.crash, s1') => (s1', .crashed)
        | (.fail, s1') =>
          (match stUpdate s1' { target with status := .failed } with
          | (.crash, s2) => (s2, .crashed)
          | (_, s2) => (s2, .error))
        | (.ok, s1) =>
        match f.resources with
        | .crash => (s1, .crashed)
        | .fail =>
          -- current → superseded, target → failed, both recorded (errors ignored)
          match stUpdate s1 { cur with status := .superseded } with
          | (.crash, s2) => (s2, .crashed)
          | (_, s2) =>
            match stUpdate s2 { target with status := .failed } with
            | (.crash, s3) => (s3, .crashed)
            | (_, s3) =>
              if fl.cleanupOnFail && f.cleanup == .crash then (s3, .crashed) else (s3, .error)
        | .ok =>
        match f.wait with
        | .crash => (s1, .crashed)
        | .fail =>
          match stUpdate s1 cur with
          | (.crash, s2) => (s2, .crashed)
          | (_, s2) =>
            match stUpdate s2 { target with status := .failed } with
            | (.crash, s3) => (s3, .crashed)
            | (_, s3) => (s3, .error)
        | .ok =>
        match hookPhase s1 target (if fl.disableHooks then 0 else fl.nHooks) f.postHook with
        | (.crash, s1') => (s1', .crashed)
        | (.fail, s1') =>
          (match stUpdate s1' { target with status := .failed } with
          | (.crash, s2) => (s2, .crashed)
          | (_, s2) => (s2, .error))
        | (.ok, s1) =>
          -- supersede every deployed record (errors ignored), then record the target as deployed
          let deployedRevs := ((s1.ledger.filter (·.status = .deployed)).map (·.rev))
          let rec supersedeAll : List Nat → St → Dec × St
            | [], s => (.ok, s)
            | r :: rest, s =>
              match get? s.ledger r with
              | none => supersedeAll rest s
              | some x =>
                match stUpdate s { x with status := .superseded } with
                | (.crash, s') => (.crash, s')
                | (_, s') => supersedeAll rest s'
          match supersedeAll deployedRevs s1 with
          | (.crash, s2) => (s2, .crashed)
          | (_, s2) =>
            match stUpdate s2 { target with status := .deployed } with
            | (.crash, s3) => (s3, .crashed)
            | (.fail, s3) => (s3, .error)
            | (.ok, s3) => (s3, .success)

def rollback (fl : RollbackFlags) (f : Faults) (l : Ledger) : St × Outcome :=
  rollbackOn fl f { ledger := l, decs := f.st }

/-! ### install -/

structure InstallFlags where
  nHooks : Nat := 0
  replace : Bool := false
  atomic : Bool := false
  dryRun : Bool := false
  disableHooks : Bool := false
  deriving Repr, DecidableEq, Inhabited

/-- `Install.failRelease`: with --atomic the release is uninstalled (history purged), otherwise
the new revision is marked failed. -/
def failInstallOn (fl : InstallFlags) (fNested : Faults) (rel : Rec) (s : St) : St × Outcome :=
  if fl.atomic then
    let (s3, o) := uninstallOn { keepHistory := false, disableHooks := fl.disableHooks, nHooks := fl.nHooks } fNested s
    (s3, if o = .crashed then .crashed else .error)
  else
    match stUpdate s { rel with status := .failed } with
    | (.crash, s3) => (s3, .crashed)
    | (_, s3) => (s3, .error)

def install (fl : InstallFlags) (f fNested : Faults) (payload : Nat) (l : Ledger) : St × Outcome :=
  let s : St := { ledger := l, decs := f.st }
  -- availableName (history is read unless dry-run)
  let nameOk : Bool :=
    if fl.dryRun then true
    else match last? l with
      | none => true
      | some lastRec => fl.replace && (lastRec.status = .uninstalled || lastRec.status = .failed)
  if !nameOk then (s, .error)
  else
  match f.pre with
  | .crash => (s, .crashed)
  | .fail => (s, .error)
  | .ok =>
  if fl.dryRun then (s, .success)
  else
  -- replaceRelease
  let step1 : Option (Nat × St) × Outcome :=
    if fl.replace then
      match last? l with
      | none => (some (1, s), .success)
      | some lastRec =>
        if lastRec.status = .failed then (some (lastRec.rev + 1, s), .success)
        else match stUpdate s { lastRec with status := .superseded } with
          | (.ok, s1) => (some (lastRec.rev + 1, s1), .success)
          | (.fail, s1) => (some (0, s1), .error)
          | (.crash, s1) => (some (0, s1), .crashed)
    else (some (1, s), .success)
  match step1 with
  | (none, o) => (s, o)
  | (some (_, s1), .error) => (s1, .error)
  | (some (_, s1), .crashed) => (s1, .crashed)
  | (some (rev, s1), .success) =>
    let rel : Rec := { rev := rev, status := .pendingInstall, payload := payload }
    match stCreate s1 rel with
    | (.crash, s2) => (s2, .crashed)
    | (.fail, s2) => (s2, .error)
    | (.ok, s2) =>
      -- performInstall; on failure: failRelease
      let nh := if fl.disableHooks then 0 else fl.nHooks
      let failInstall : St → St × Outcome := failInstallOn fl fNested rel
      match hookPhase s2 rel nh f.preHook with
      | (.crash, s3) => (s3, .crashed)
      | (.fail, s3) => failInstall s3
      | (.ok, s3) =>
        match f.resources with
        | .crash => (s3, .crashed)
        | .fail => failInstall s3
        | .ok =>
          match f.wait with
          | .crash => (s3, .crashed)
          | .fail => failInstall s3
          | .ok =>
            match hookPhase s3 rel nh f.postHook with
            | (.crash, s4) => (s4, .crashed)
            | (.fail, s4) => failInstall s4
            | (.ok, s4) =>
              match stUpdate s4 { rel with status := .deployed } with
              | (.crash, s5) => (s5, .crashed)
              | (_, s5) => (s5, .success)             -- a failed final record is only logged

/-! ### upgrade -/

structure UpgradeFlags where
  nHooks : Nat := 0
  atomic : Bool := false
  cleanupOnFail : Bool := false
  dryRun : Bool := false
  disableHooks : Bool := false
  maxHistory : Nat := 0
  deriving Repr, DecidableEq, Inhabited

/-- the release an upgrade builds on (`currentRelease` of prepareUpgrade) -/
def currentOf (l : Ledger) : Option Rec :=
  match last? l with
  | none => none
  | some lastRec =>
    if lastRec.status = .deployed then some lastRec
    else match deployed? l with
      | some d => some d
      | none => if lastRec.status = .failed || lastRec.status = .superseded then some lastRec else none

/-- `Upgrade.failRelease` and what `releasingUpgrade` does before calling it: (re-record the
original release,) mark the new revision failed, clean up, and with --atomic roll back to the
highest revision that is superseded or deployed. -/
def failUpgradeOn (fl : UpgradeFlags) (f fNested : Faults) (cur rel : Rec) (rerecord : Bool) (s : St) : St × Outcome :=
  let afterRe : Dec × St := if rerecord then stUpdate s cur else (.ok, s)
  match afterRe with
  | (.crash, s2) => (s2, .crashed)
  | (_, s2) =>
    match stUpdate s2 { rel with status := .failed } with
    | (.crash, s3) => (s3, .crashed)
    | (_, s3) =>
      if fl.cleanupOnFail && f.cleanup != .ok && rerecord then
        (s3, if f.cleanup = .crash then .crashed else .error)
      else if fl.atomic then
        let cands := s3.ledger.filter fun r => r.status = .superseded || r.status = .deployed
        if cands.isEmpty then (s3, .error)
        else
          let (s4, o) := rollbackOn { version := maxRev cands, disableHooks := fl.disableHooks, nHooks := fl.nHooks, maxHistory := 0 }
            fNested s3
          (s4, if o = .crashed then .crashed else .error)
      else (s3, .error)

def upgrade (fl : UpgradeFlags) (f fNested : Faults) (payload : Nat) (l : Ledger) : St × Outcome :=
  let s : St := { ledger := l, decs := f.st }
  match f.pre with
  | .crash => (s, .crashed)
  | .fail => (s, .error)
  | .ok =>
  match last? l with
  | none => (s, .error)
  | some lastRec =>
    if lastRec.status.isPending then (s, .error)            -- errPending
    else
    match currentOf l with
    | none => (s, .error)
    | some cur =>
      if fl.dryRun then (s, .success)
      else
      let rel : Rec := { rev := lastRec.rev + 1, status := .pendingUpgrade, payload := payload }
      match storageCreate s fl.maxHistory rel with
      | (.crash, s1) => (s1, .crashed)
      | (.fail, s1) => (s1, .error)
      | (.ok, s1) =>
        -- releasingUpgrade; on a failure: `failUpgrade` (with the original re-recorded when the failure came after the update)
        let nh := if fl.disableHooks then 0 else fl.nHooks
        let failUpgrade : Bool → St → St × Outcome := failUpgradeOn fl f fNested cur rel
        match hookPhase s1 rel nh f.preHook with
        | (.crash, s2) => (s2, .crashed)
        | (.fail, s2) => failUpgrade false s2
        | (.ok, s2) =>
          match f.resources with
          | .crash => (s2, .crashed)
          | .fail => failUpgrade true s2
          | .ok =>
            match f.wait with
            | .crash => (s2, .crashed)
            | .fail => failUpgrade true s2
            | .ok =>
              match hookPhase s2 rel nh f.postHook with
              | (.crash, s3) => (s3, .crashed)
              | (.fail, s3) => failUpgrade false s3
              | (.ok, s3) =>
                match stUpdate s3 { cur with status := .superseded } with
                | (.crash, s4) => (s4, .crashed)
                | (_, s4) =>
                  match stUpdate s4 { rel with status := .deployed } with
                  | (.crash, s5) => (s5, .crashed)
                  | (.fail, s5) => (s5, .error)
                  | (.ok, s5) => (s5, .success)

end Helm.Ledger
