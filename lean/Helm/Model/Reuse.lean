/-
M8: which user values and which chart defaults an upgrade records.
  pkg/action/upgrade.go   prepareUpgrade (vals = reuseValues(chart, currentRelease, vals);
                          Release.Config = vals; Release.Chart = chart), reuseValues
  pkg/action/rollback.go  prepareRollback (Chart and Config of the target revision are copied)
Built on the value model (Values.lean): CoalesceTables, CoalesceValues.
A revision is the chart it recorded and its user-supplied values.
-/
import Helm.Model.Values

namespace Helm.Reuse
open Helm.Values

structure Flags where
  reset : Bool := false
  reuse : Bool := false
  resetThenReuse : Bool := false
  deriving Repr, DecidableEq, Inhabited

structure Rev where
  chart : Chart
  config : Tbl
  deriving Inhabited

def Chart.withValues : Chart → Tbl → Chart
  | .mk n _ d, v => .mk n v d

/-- `prepareUpgrade`'s use of `reuseValues(chart, current, newVals)`: the revision to record -/
def upgradeStep (fl : Flags) (cur : Rev) (newChart : Chart) (newVals : Tbl) : Res Rev :=
  if fl.reset then .ok ⟨newChart, newVals⟩
  else if fl.reuse then
    -- "We have to regenerate the old coalesced values"; they become the new chart's defaults
    match coalesceTop false cur.chart cur.config with
    | .err e => .err e
    | .ok oldVals => .ok ⟨Chart.withValues newChart oldVals, coalesceTables false newVals cur.config⟩
  else if fl.resetThenReuse then .ok ⟨newChart, coalesceTables false newVals cur.config⟩
  else .ok ⟨newChart, if newVals.isEmpty && !cur.config.isEmpty then cur.config else newVals⟩

/-- `prepareRollback`: chart and values of the target revision -/
def rollbackStep (target : Rev) : Rev := target

/-- the values the templates of a revision see (`ToRenderValues` → `CoalesceValues(chart, config)`) -/
def effective (r : Rev) : Res Tbl := coalesceTop false r.chart r.config

end Helm.Reuse
