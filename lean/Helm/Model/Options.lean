/-
pkg/cli/values/options.go: Options.MergeValues -- the order in which the value-flag families
are applied to one accumulating map (later application wins).
Not modelled: reading and YAML-decoding the files (the harness supplies decoded maps), the
key=value form of --set-json (encoding/json decoder), URLs in -f.
-/
import Helm.Model.Values
import Helm.Model.Strvals
namespace Helm.Options
open Helm.Values Helm.Strvals

structure Opts where
  files : List Tbl := []          -- -f / --values, decoded, in command-line order
  json : List Tbl := []           -- --set-json given as JSON objects
  set : List Str := []            -- --set
  setString : List Str := []      -- --set-string
  setFile : List Str := []        -- --set-file
  setLiteral : List Str := []     -- --set-literal
  fileContents : List (String × String) := []

/-- apply a list of set expressions in order; `none` as soon as one fails. -/
def applySets (m : Mode) : List Str → Tbl → Option Tbl
  | [], base => some base
  | s :: rest, base =>
    match parseInto m s base with
    | (t, none) => applySets m rest t
    | (_, some _) => none

/-- `Options.MergeValues`. -/
def mergeValues (o : Opts) : Option Tbl :=
  let base := o.files.foldl mergeMaps Tbl.nil
  let base := o.json.foldl mergeMaps base
  (applySets .typed o.set base).bind fun b =>
  (applySets .string o.setString b).bind fun b =>
  (applySets (.file o.fileContents) o.setFile b).bind fun b =>
  applySets .literal o.setLiteral b

end Helm.Options
