/-
M9 (packaging): pkg/chart/v2/util/save.go writeTarContents (chart → tar entries) and
pkg/chart/v2/loader: LoadArchiveFiles' per-entry treatment (name normalisation, BOM trimming)
followed by load.go LoadFiles (classification of files, sub-chart grouping, recursion).
Parameters (hypothesis: parse ∘ print = id): YAML of Chart.yaml / Chart.lock (opaque here: the
metadata and lock are carried as the bytes written), values.yaml parsing.
Not modelled: tar/gzip framing, file modes and times, `.tgz` sub-charts inside charts/,
requirements.yaml (Helm 2 layout), .prov files under charts/.
-/
import Helm.Model.ArchivePath
namespace Helm.ChartIO
open Helm.ArchivePath

abbrev Bytes := List Nat

structure File where
  name : Str
  data : Bytes
  deriving Repr, DecidableEq, Inhabited

/-- A chart as far as packaging is concerned.  `meta` / `lock` stand for the YAML documents
(`yaml.Marshal(c.Metadata)` / `yaml.Marshal(c.Lock)`); `valuesRaw` is the values.yaml file kept
in `Raw` -- the only form in which values are written out. -/
inductive MChart where
  | mk (name : Str) (apiV1 : Bool) (metaDoc : Bytes) (lock : Option Bytes) (valuesRaw : Option Bytes)
       (schema : Option Bytes) (templates : List File) (files : List File) (deps : List MChart)

instance : Inhabited MChart := ⟨.mk [] false [] none none none [] [] []⟩

def MChart.name : MChart → Str | .mk n _ _ _ _ _ _ _ _ => n
def MChart.deps : MChart → List MChart | .mk _ _ _ _ _ _ _ _ d => d

def join (a b : Str) : Str := if a.isEmpty then b else a ++ '/' :: b

/-- `writeTarContents(out, c, prefix)`: the entries in the order they are written. -/
def saveEntries : MChart → Str → List File
  | .mk name apiV1 metaDoc lock valuesRaw schema templates files deps, pfx =>
    let base := join pfx name
    [⟨join base "Chart.yaml".toList, metaDoc⟩] ++
    (match lock with
      | some l => if apiV1 then [] else [⟨join base "Chart.lock".toList, l⟩]
      | none => []) ++
    (match valuesRaw with | some v => [⟨join base "values.yaml".toList, v⟩] | none => []) ++
    (match schema with | some s => [⟨join base "values.schema.json".toList, s⟩] | none => []) ++
    templates.map (fun f => ⟨join base f.name, f.data⟩) ++
    files.map (fun f => ⟨join base f.name, f.data⟩) ++
    saveDeps deps (join base "charts".toList)
where
  saveDeps : List MChart → Str → List File
    | [], _ => []
    | d :: ds, pfx => saveEntries d pfx ++ saveDeps ds pfx

def bom : Bytes := [0xEF, 0xBB, 0xBF]

/-- `bytes.TrimPrefix(data, utf8bom)` -/
def trimBOM (d : Bytes) : Bytes := if bom.isPrefixOf d then d.drop 3 else d

/-- per-entry treatment of `LoadArchiveFiles`; `none` = archive rejected -/
def archiveFiles : List File → Option (List File)
  | [] => some []
  | f :: rest =>
    match normName f.name, archiveFiles rest with
    | .ok n, some r => some (⟨n, trimBOM f.data⟩ :: r)
    | _, _ => none

inductive Kind where
  | chartYaml | chartLock | reqLock | valuesYaml | schema | template | subchart (cname rest : Str) | strayInCharts | other
  deriving Repr, DecidableEq, Inhabited

def startsWith (p s : Str) : Bool := p.isPrefixOf s

/-- the `switch` of `LoadFiles` -/
def classify (n : Str) : Kind :=
  if n = "Chart.yaml".toList then .chartYaml
  else if n = "Chart.lock".toList then .chartLock
  else if n = "requirements.lock".toList then .reqLock
  else if n = "values.yaml".toList then .valuesYaml
  else if n = "values.schema.json".toList then .schema
  else if startsWith "templates/".toList n then .template
  else if startsWith "charts/".toList n then
    let fname := n.drop 7
    match splitOn '/' fname with
    | cname :: r :: rs => .subchart cname (joinWith '/' (r :: rs))
    | _ => .strayInCharts
  else .other

/-- files of one sub-chart, grouped under its directory name, in order of first appearance -/
def addSub (subs : List (Str × List File)) (cname : Str) (f : File) : List (Str × List File) :=
  match subs with
  | [] => [(cname, [f])]
  | (c, fs) :: r => if c = cname then (c, fs ++ [f]) :: r else (c, fs) :: addSub r cname f

structure Acc where
  metaDoc : Option Bytes := none
  lock : Option Bytes := none
  valuesRaw : Option Bytes := none
  schema : Option Bytes := none
  templates : List File := []
  files : List File := []
  subs : List (Str × List File) := []
  stray : Bool := false

/-- `apiV1`: what the first pass of `LoadFiles` (Chart.yaml only) found.  The Helm 2 lock file
requirements.lock is parsed as the lock and, in an apiVersion v1 chart, stays among the files
(that is how Save writes it back: the v1 lock is not written from `Lock`). -/
def accStep (apiV1 : Bool) (a : Acc) (f : File) : Acc :=
  match classify f.name with
  | .chartYaml => { a with metaDoc := some f.data }
  | .chartLock => { a with lock := some f.data }
  | .reqLock => { a with lock := some f.data, files := if apiV1 then a.files ++ [f] else a.files }
  | .valuesYaml => { a with valuesRaw := some f.data }
  | .schema => { a with schema := some f.data }
  | .template => { a with templates := a.templates ++ [f] }
  | .subchart cname rest => { a with subs := addSub a.subs cname ⟨rest, f.data⟩ }
  | .strayInCharts => { a with stray := true }
  | .other => { a with files := a.files ++ [f] }

/-- `LoadFiles`.  `apiV1Of` reads `apiVersion` out of the Chart.yaml document (parameter).
Sub-chart directories starting with `_` or `.` are skipped.  Fuel bounds the nesting depth. -/
def loadFiles (apiV1Of : Bytes → Bool) (nameOf : Bytes → Str) : Nat → List File → Option MChart
  | 0, _ => none
  | fuel + 1, fs =>
    match (fs.foldl (accStep false) {}).metaDoc with   -- first pass: Chart.yaml
    | none => none                                   -- "Chart.yaml file is missing"
    | some md =>
      let a := fs.foldl (accStep (apiV1Of md)) {}
      if a.stray then none                           -- a non-chart file directly under charts/
      else
        let rec loadSubs : List (Str × List File) → Option (List MChart)
          | [] => some []
          | (cname, sfs) :: r =>
            if cname.head? = some '_' || cname.head? = some '.' then loadSubs r
            else match loadFiles apiV1Of nameOf fuel sfs, loadSubs r with
              | some c, some cs => some (c :: cs)
              | _, _ => none
        match loadSubs a.subs with
        | none => none
        | some deps =>
          some (.mk (nameOf md) (apiV1Of md) md a.lock a.valuesRaw a.schema a.templates a.files deps)

end Helm.ChartIO
