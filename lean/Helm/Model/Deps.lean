/-
pkg/chart/v2/util/dependencies.go: processDependencyEnabled (tags, conditions, alias
resolution, pruning of disabled dependencies, recursion) and pkg/chart/v2/util/values.go:
Table / PathValue.
Not modelled: semver range matching between a dependency entry and the chart found in charts/
(`IsCompatibleRange`; the harness uses matching versions), import-values.
-/
import Helm.Model.Values
namespace Helm.Deps
open Helm.Values

/-- `Values.Table(name)` for a parsed, non-empty path. -/
def table : Tbl → List String → Option Tbl
  | t, [] => some t
  | t, k :: p => match t.get? k with
    | some (.tbl t') => table t' p
    | _ => none

/-- `Values.PathValue(path)`: the non-table value at the path (`strings.Split(path, ".")`). -/
def pathValue (v : Tbl) (path : List String) : Option Val :=
  match path.reverse with
  | [] => none
  | key :: revInit =>
    match table v revInit.reverse with
    | none => none
    | some t => match t.get? key with
      | some x => if x.isTable then none else some x
      | none => none

/-- One entry of `dependencies:` in Chart.yaml. -/
structure Dep where
  name : String
  alias : String := ""
  conditions : List (List String) := []   -- `condition:` split at "," (empty items dropped), each split at "."
  tags : List String := []
  deriving Repr, DecidableEq, Inhabited

mutual
  inductive DChart where
    | mk (name : String) (values : Tbl) (metaDeps : List Dep) (subs : DChartList)
  inductive DChartList where
    | nil
    | cons (c : DChart) (r : DChartList)
end

instance : Inhabited DChartList := ⟨.nil⟩
instance : Inhabited DChart := ⟨.mk "" .nil [] .nil⟩

def DChart.name : DChart → String | .mk n _ _ _ => n
def DChart.values : DChart → Tbl | .mk _ v _ _ => v
def DChart.metaDeps : DChart → List Dep | .mk _ _ d _ => d
def DChart.subs : DChart → DChartList | .mk _ _ _ s => s
def DChart.rename : DChart → String → DChart | .mk _ v d s, n => .mk n v d s

def DChartList.toList : DChartList → List DChart
  | .nil => []
  | .cons c r => c :: toList r

def DChartList.ofList : List DChart → DChartList
  | [] => .nil
  | c :: r => .cons c (ofList r)

mutual
  /-- forget the dependency metadata: the chart tree `CoalesceValues` walks. -/
  def DChart.toChart : DChart → Chart
    | .mk n v _ s => .mk n v (DChartList.toCharts s)
  def DChartList.toCharts : DChartList → ChartList
    | .nil => .nil
    | .cons c r => .cons (DChart.toChart c) (DChartList.toCharts r)
end

/-! ### the enabled decision -/

/-- `processDependencyTags` for one dependency: the new value of `Enabled`. -/
def tagsPass (vt : Tbl) (tags : List String) : Bool :=
  let hasTrue := tags.any fun k => match vt.get? k with | some (.bool true) => true | _ => false
  let hasFalse := tags.any fun k => match vt.get? k with | some (.bool false) => true | _ => false
  if !hasTrue && hasFalse then false else true

/-- `processDependencyConditions` for one dependency: the first condition path that resolves
to a boolean decides; `none` = no condition decided, `Enabled` keeps its value. -/
def condPass (cvals : Tbl) (cpath : List String) : List (List String) → Option Bool
  | [] => none
  | c :: rest =>
    match pathValue cvals (cpath ++ c) with
    | some (.bool b) => some b
    | _ => condPass cvals cpath rest

/-- `Enabled` after "set all to true", the tags pass and the conditions pass. -/
def depEnabled (cvals : Tbl) (cpath : List String) (d : Dep) : Bool :=
  let afterTags := match cvals.get? "tags" with
    | some (.tbl vt) => tagsPass vt d.tags
    | _ => true
  match condPass cvals cpath d.conditions with
  | some b => b
  | none => afterTags

/-! ### processDependencyEnabled -/

def findSub (subs : List DChart) (n : String) : Option DChart := subs.find? (·.name = n)

/-- The first half: charts not named by any entry, then per entry the (renamed) chart it names. -/
def resolveAliases (metaDeps : List Dep) (subs : List DChart) : List DChart × List Dep :=
  let unlisted := subs.filter fun s => !(metaDeps.any fun r => r.name = s.name)
  let listed := metaDeps.filterMap fun r =>
    (findSub subs r.name).map fun c => if r.alias ≠ "" then c.rename r.alias else c
  let metaDeps' := metaDeps.map fun r => if r.alias ≠ "" then { r with name := r.alias } else r
  (unlisted ++ listed, metaDeps')

mutual
  /-- `processDependencyEnabled(c, v, path)`: the pruned chart tree, or an error from CoalesceValues.
  Fuel bounds the depth of the chart tree (structural recursion cannot see through the
  re-assembled dependency list). -/
  def processEnabled : Nat → DChart → Tbl → List String → Res DChart
    | 0, c, _, _ => .ok c
    | fuel + 1, .mk name values metaDeps subs, v, path =>
      if metaDeps.isEmpty then .ok (.mk name values metaDeps subs)     -- `Dependencies == nil`
      else
        let (deps1, meta1) := resolveAliases metaDeps subs.toList
        let c1 : DChart := .mk name values meta1 (DChartList.ofList deps1)
        match coalesceTop false c1.toChart v with
        | .err e => .err e
        | .ok cvals =>
          let disabled := (meta1.filter fun r => !depEnabled cvals path r).map (·.name)
          let cd := deps1.filter fun n => !disabled.contains n.name
          let cdMeta := meta1.filter fun r => !disabled.contains r.name
          match processSubs fuel cd cvals path with
          | .err e => .err e
          | .ok cd' => .ok (.mk name values cdMeta (DChartList.ofList cd'))
  def processSubs : Nat → List DChart → Tbl → List String → Res (List DChart)
    | _, [], _, _ => .ok []
    | fuel, t :: rest, cvals, path =>
      match processEnabled fuel t cvals (path ++ [t.name]) with
      | .err e => .err e
      | .ok t' =>
        match processSubs fuel rest cvals path with
        | .err e => .err e
        | .ok r => .ok (t' :: r)
end

/-! ### processDependencyImportValues (charts without `import-values` entries)

Bottom-up, every chart that has dependency metadata gets `c.Values := MergeTables(MergeValues(c, nil), {})`,
i.e. its defaults are replaced by the merge-mode coalescing of its whole subtree. -/

mutual
  def importRewrite : DChart → Res DChart
    | .mk name values metaDeps subs =>
      match importRewriteList subs with
      | .err e => .err e
      | .ok subs' =>
        if metaDeps.isEmpty then .ok (.mk name values metaDeps subs')
        else
          match coalesceTop true (DChart.mk name values metaDeps subs').toChart .nil with
          | .err e => .err e
          | .ok v => .ok (.mk name v metaDeps subs')
  def importRewriteList : DChartList → Res DChartList
    | .nil => .ok .nil
    | .cons c r =>
      match importRewrite c with
      | .err e => .err e
      | .ok c' =>
        match importRewriteList r with
        | .err e => .err e
        | .ok r' => .ok (.cons c' r')
end

/-- `ProcessDependencies(c, v)` -/
def processDependencies (c : DChart) (v : Tbl) : Res DChart :=
  match processEnabled 16 c v [] with
  | .err e => .err e
  | .ok c' => importRewrite c'

end Helm.Deps
