/-
Model of pkg/release/util/manifest.go (SplitManifests), manifest_sorter.go
(SortManifests, manifestFile.sort) and the NOTES/manifest assembly part of
pkg/action/action.go:renderResources.  Text is `List Char`.  Core Lean only.

Not modelled (parameters supplied by the harness from the real libraries):
the YAML decoding of a document head (`yaml.Unmarshal` into `SimpleHead`).
-/
import Helm.Model.KindOrder
import Helm.Gen.Tables
namespace Helm.Manifest
open Helm.KindOrder

abbrev Str := List Char

/-- Go regexp `\s` (Perl class): `[\t\n\f\r ]`. -/
def isReWs (c : Char) : Bool :=
  c = ' ' || c = '\t' || c = '\n' || c = '\r' || c = '\x0c'

/-- Go `unicode.IsSpace`. -/
def isGoSpace (c : Char) : Bool :=
  c = ' ' || c = '\t' || c = '\n' || c = '\x0b' || c = '\x0c' || c = '\r' ||
  c = '\u0085' || c = '\u00a0' || c = '\u1680' ||
  ('\u2000' ≤ c && c ≤ '\u200a') || c = '\u2028' || c = '\u2029' ||
  c = '\u202f' || c = '\u205f' || c = '\u3000'

/-- `strings.TrimSpace`. -/
def trimSpace (s : Str) : Str :=
  ((s.dropWhile isGoSpace).reverse.dropWhile isGoSpace).reverse

def dashes3 : Str → Option Str
  | '-' :: '-' :: '-' :: r => some r
  | _ => none

/-- Try to match the second alternative of `sep`, `\s*\n---\s*`, at the head of `s`;
returns the text after the match.  (Greedy `\s*` backtracks to the last `\n` that is
immediately followed by `---`; as `-` is not white space that `\n` must be the last
character of the white-space run.) -/
def matchSep (s : Str) : Option Str :=
  let ws := s.takeWhile isReWs
  let rest := s.dropWhile isReWs
  if ws.getLast? = some '\n' then (dashes3 rest).map (·.dropWhile isReWs) else none

/-- Pieces between separator matches (leftmost-first, non-overlapping), i.e.
`sep.Split(s, -1)` once the `^---\s*` alternative at offset 0 has been dealt with.
`cur` is the current piece, reversed.  Fuel is `length + 1`; every step consumes a character. -/
def splitGo : Nat → Str → Str → List Str
  | 0, _, cur => [cur.reverse]
  | _ + 1, [], cur => [cur.reverse]
  | n + 1, c :: rest, cur =>
    match matchSep (c :: rest) with
    | some r => cur.reverse :: splitGo n r []
    | none => splitGo n rest (c :: cur)

/-- `sep.Split(strings.TrimSpace(bigFile), -1)`. -/
def sepSplit (t : Str) : List Str :=
  match dashes3 t with
  | some r => [] :: splitGo (t.length + 1) (r.dropWhile isReWs) []
  | none => splitGo (t.length + 1) t []

/-- `SplitManifests`, as the list of documents in `manifest-%d` order. -/
def splitManifests (bigFile : Str) : List Str :=
  ((sepSplit (trimSpace bigFile)).filter (fun d => !d.isEmpty)).map trimSpace

/-! ### Classification of one document (manifestFile.sort) -/

/-- The decoded head of a document, as `yaml.Unmarshal` into `SimpleHead` gives it. -/
structure Head where
  version : String := ""
  kind : String := ""
  name : String := ""
  annotations : List (String × String) := []   -- empty when Metadata or Annotations is nil
  deriving Repr, DecidableEq, Inhabited

structure Hook where
  name : String
  kind : String
  path : String
  manifest : Str
  events : List String
  weight : Int
  deletePolicies : List String
  logPolicies : List String
  deriving Repr, DecidableEq, Inhabited

structure Manifest where
  name : String       -- file path
  content : Str
  head : Head
  deriving Repr, DecidableEq, Inhabited

inductive Class where
  | generic (m : Manifest)
  | hook (h : Hook)
  | dropped           -- hook annotation naming an unknown event
  deriving Repr, DecidableEq, Inhabited

def lookup (k : String) : List (String × String) → Option String
  | [] => none
  | (k', v) :: r => if k' = k then some v else lookup k r

def splitOnChar (sepc : Char) : Str → List Str
  | [] => [[]]
  | c :: r =>
    if c = sepc then [] :: splitOnChar sepc r
    else match splitOnChar sepc r with
      | [] => [[c]]
      | p :: ps => (c :: p) :: ps

/-- ASCII `strings.ToLower` (non-ASCII letters are outside the modelled alphabet). -/
def toLower (s : Str) : Str := s.map Char.toLower

/-- `strings.ToLower(strings.TrimSpace(x))` for each comma-separated item. -/
def annoItems (v : String) : List String :=
  (splitOnChar ',' v.toList).map (fun p => String.ofList (toLower (trimSpace p)))

def digitsVal : Str → Option Nat
  | [] => none
  | cs => cs.foldl (fun acc c => acc.bind fun n =>
      if c.isDigit then some (n * 10 + (c.toNat - '0'.toNat)) else none) (some 0)

/-- `strconv.Atoi` then `err → 0` (calculateHookWeight). 64-bit `int`. -/
def atoiOrZero (s : String) : Int :=
  let (neg, ds) := match s.toList with
    | '-' :: r => (true, r)
    | '+' :: r => (false, r)
    | r => (false, r)
  match digitsVal ds with
  | none => 0
  | some n =>
    if neg then (if n ≤ 2^63 then -(n : Int) else 0)
    else (if n < 2^63 then (n : Int) else 0)

-- annotation names: regenerated from pkg/release/v1/hook.go
def hookAnno := Helm.Gen.hookAnnotation
def hookWeightAnno := Helm.Gen.hookWeightAnnotation
def hookDeleteAnno := Helm.Gen.hookDeleteAnnotation
def hookLogAnno := Helm.Gen.hookOutputLogAnnotation

/-- events table: annotation word ↦ event (regenerated table is passed in). -/
def eventsOf (table : List (String × String)) (words : List String) : Option (List String) :=
  words.foldr (fun w acc => match lookup w table, acc with
    | some e, some es => some (e :: es)
    | _, _ => none) (some [])

def classify (table : List (String × String)) (path : String) (doc : Str) (h : Head) : Class :=
  match lookup hookAnno h.annotations with
  | none => .generic { name := path, content := doc, head := h }
  | some types =>
    match eventsOf table (annoItems types) with
    | none => .dropped
    | some evs =>
      .hook { name := h.name, kind := h.kind, path := path, manifest := doc, events := evs,
              weight := atoiOrZero ((lookup hookWeightAnno h.annotations).getD ""),
              deletePolicies := (lookup hookDeleteAnno h.annotations).elim [] annoItems,
              logPolicies := (lookup hookLogAnno h.annotations).elim [] annoItems }

/-! ### SortManifests -/

def baseName (p : String) : Str :=
  -- path.Base for the relative, slash-separated, non-empty names the engine produces
  let parts := (splitOnChar '/' p.toList).filter (fun x => !x.isEmpty)
  parts.getLast?.getD ['.']

def isPartial (p : String) : Bool := (baseName p).head? = some '_'

/-- Documents of all files that are considered, in processing order:
files sorted by path; partials and blank files skipped; in-file order. -/
def docsOf (files : List (String × Str)) : List (String × Str) :=
  let sorted := files.mergeSort (fun a b => decide (a.1 ≤ b.1))
  sorted.flatMap fun (p, content) =>
    if isPartial p || (trimSpace content).isEmpty then []
    else (splitManifests content).map fun d => (p, d)

def classifyAll (table : List (String × String)) (headOf : Str → Head)
    (docs : List (String × Str)) : List Class :=
  docs.map fun (p, d) => classify table p d (headOf d)

def genericOf : List Class → List Manifest
  | [] => []
  | .generic m :: r => m :: genericOf r
  | _ :: r => genericOf r

def hooksOf : List Class → List Hook
  | [] => []
  | .hook h :: r => h :: hooksOf r
  | _ :: r => hooksOf r

def droppedCount : List Class → Nat
  | [] => 0
  | .dropped :: r => droppedCount r + 1
  | _ :: r => droppedCount r

structure Sorted where
  hooks : List Hook
  manifests : List Manifest
  deriving Repr

/-- `SortManifests(files, _, ordering)` for documents whose heads all decode. -/
def sortManifests (order : List String) (table : List (String × String)) (headOf : Str → Head)
    (files : List (String × Str)) : Sorted :=
  let cs := classifyAll table headOf (docsOf files)
  { hooks := sortByKind order (·.kind) (hooksOf cs),
    manifests := sortByKind order (·.head.kind) (genericOf cs) }

/-! ### renderResources: NOTES extraction and manifest assembly -/

def notesSuffix : Str := "NOTES.txt".toList

def hasSuffix (s suf : Str) : Bool := suf.reverse.isPrefixOf s.reverse

/-- The NOTES loop of `renderResources`, as a fold over the rendered files *in the order the
Go map iteration happens to deliver them* (an arbitrary permutation).  Returns the notes text
and the remaining files. -/
def extractNotes (subNotes : Bool) (mainNotes : String) (files : List (String × Str)) :
    Str × List (String × Str) :=
  files.foldl (fun (acc : Str × List (String × Str)) (kv : String × Str) =>
    if hasSuffix kv.1.toList notesSuffix then
      if subNotes || kv.1 = mainNotes then
        ((if acc.1.isEmpty then kv.2 else acc.1 ++ ['\n'] ++ kv.2), acc.2)
      else acc
    else (acc.1, acc.2 ++ [kv])) ([], [])

/-- by path -/
def keyLe (a b : String × Str) : Bool := decide (a.1 ≤ b.1)

/-- `renderResources` since the repair `fix: concatenate NOTES.txt files in path order`: the
rendered files are visited in sorted path order (`sort.Strings` over the keys of the map) -/
def extractNotesSorted (subNotes : Bool) (mainNotes : String) (files : List (String × Str)) :
    Str × List (String × Str) :=
  extractNotes subNotes mainNotes (files.mergeSort keyLe)

/-- `---\n# Source: <name>\n<content>\n` for each sorted manifest. -/
def assemble (ms : List Manifest) : Str :=
  ms.flatMap fun m => "---\n# Source: ".toList ++ m.name.toList ++ ['\n'] ++ m.content ++ ['\n']

end Helm.Manifest
