/-
M2: rune-level model of pkg/strvals/parser.go (`--set`, `--set-string`) and
literal_parser.go (`--set-literal`).  Functions go from the remaining input to
(result, remaining input).  Go type assertions that can panic are explicit `panic` outcomes and
the `recover` in `key` / `setIndex` is modelled where it is in the source.
Not modelled: the JSON-valued right-hand sides of `--set-json` (encoding/json).
Core Lean only.
-/
import Helm.Model.Values
import Helm.Gen.Tables
namespace Helm.Strvals
open Helm.Values

abbrev Str := List Char

inductive E where
  | eof            -- io.EOF
  | err            -- any other error
  | panic          -- a Go run-time panic not (yet) recovered
  deriving Repr, DecidableEq, Inhabited

inductive Mode where
  | typed     -- --set          (typedVal with stringBool = false)
  | string    -- --set-string   (typedVal with stringBool = true)
  | literal   -- --set-literal
  | file (contents : List (String × String))  -- --set-file: value = content of the named file
  deriving Repr, DecidableEq, Inhabited

def Mode.isLiteral : Mode → Bool
  | .literal => true
  | _ => false

/-! ### runesUntil -/

/-- `runesUntil(in, stop)`: returns (runes read, the stop rune or none at EOF, rest).
With `esc`, a backslash takes the next rune literally (parser.go); without, it is an ordinary
rune (`runesUntilLiteral`). -/
def runesUntil (esc : Bool) (stop : Char → Bool) : Str → Str → Str × Option Char × Str
  | [], acc => (acc.reverse, none, [])
  | c :: rest, acc =>
    if stop c then (acc.reverse, some c, rest)
    else if esc && c = '\\' then
      match rest with
      | [] => (acc.reverse, none, [])
      | n :: rest' => runesUntil esc stop rest' (n :: acc)
    else runesUntil esc stop rest (c :: acc)

/-! ### typedVal -/

/-- simple case folding as used by `strings.EqualFold` against the ASCII words
true/false/null/0 (the only non-ASCII rune folding to one of their letters is U+017F ↦ s;
U+212A ↦ k does not occur in them). -/
def foldChar (c : Char) : Char := if c = 'ſ' then 's' else c.toLower

def equalFold (a : Str) (w : String) : Bool := a.map foldChar == w.toList

def digitsNat : Str → Option Nat
  | [] => none
  | cs => cs.foldl (fun acc c => acc.bind fun n =>
      if c.isDigit then some (n * 10 + (c.toNat - '0'.toNat)) else none) (some 0)

/-- `strconv.ParseInt(s, 10, 64)`; `none` on syntax or range error. -/
def parseInt64 (s : Str) : Option Int :=
  let (neg, ds) := match s with
    | '-' :: r => (true, r)
    | '+' :: r => (false, r)
    | r => (false, r)
  match digitsNat ds with
  | none => none
  | some n =>
    if neg then (if n ≤ 2^63 then some (-(n : Int)) else none)
    else (if n < 2^63 then some (n : Int) else none)

def typedVal (v : Str) (st : Bool) : Val :=
  if st then .str (String.ofList v)
  else if equalFold v "true" then .bool true
  else if equalFold v "false" then .bool false
  else if equalFold v "null" then .null
  else if equalFold v "0" then .num "0"
  else match v with
    | [] => .str ""
    | c :: _ =>
      if c ≠ '0' then
        match parseInt64 v with
        | some i => .num (toString i)
        | none => .str (String.ofList v)
      else .str (String.ofList v)

def reader (m : Mode) (rs : Str) : Val :=
  match m with
  | .typed => typedVal rs false
  | .string => typedVal rs true
  | .literal => .str (String.ofList rs)
  | .file fs =>
    -- the harness only names files that exist; a missing file (an error in Go) is outside the model
    match fs.find? (fun kv => kv.1 = String.ofList rs) with
    | some kv => .str kv.2
    | none => .null

/-! ### lists -/

/-- `strconv.Atoi` (64-bit int). -/
def atoi (s : Str) : Option Int := parseInt64 s

/-- `setIndex(list, index, val)` for a non-negative index (negative ones are rejected by the
callers' own `i < 0` test as well). -/
def setIndex (list : VList) (index : Int) (val : Val) : Except E VList :=
  if index < 0 then .error .err
  else if index > (Helm.Gen.maxIndex : Int) then .error .err
  else .ok (list.setAt index.toNat val)

/-- `set(data, key, val)`: an empty key is not set. -/
def set (data : Tbl) (key : Str) (val : Val) : Tbl :=
  if key.isEmpty then data else data.set (String.ofList key) val

/-! ### values -/

/-- `valList`: (list, error (none = nil), rest). `ErrNotList` is `notList = true`. -/
structure VL where
  list : VList
  err : Option E
  notList : Bool
  rest : Str

def valListLoop (m : Mode) : Nat → Str → VList → VL
  | 0, s, l => ⟨l, some .err, false, s⟩
  | fuel + 1, s, l =>
    match runesUntil true (fun c => c = ',' || c = '}') s [] with
    | (_, none, rest) => ⟨l, some .err, false, rest⟩          -- "list must terminate with '}'"
    | (rs, some '}', rest) =>
      let rest' := match rest with
        | ',' :: r => r
        | r => r
      ⟨l.snoc (reader m rs), none, false, rest'⟩
    | (rs, some _, rest) => valListLoop m fuel rest (l.snoc (reader m rs))

def valList (m : Mode) (s : Str) : VL :=
  match s with
  | [] => ⟨.nil, some .eof, false, []⟩
  | '{' :: rest => valListLoop m (rest.length + 1) rest .nil
  | _ => ⟨.nil, none, true, s⟩

/-- The right-hand side after `=`: (value to store, error, rest); `none` value = nothing stored. -/
def rhs (m : Mode) (s : Str) : Option Val × Option E × Str :=
  match m with
  | .literal =>
    -- val(): everything up to EOF
    (some (.str (String.ofList s)), none, [])
  | _ =>
    let vl := valList m s
    if vl.notList then
      let (rs, _, rest) := runesUntil true (fun c => c = ',') s []
      (some (reader m rs), none, rest)
    else match vl.err with
      | none => (some (.list vl.list), none, vl.rest)
      | some .eof => (some (.str ""), some .eof, vl.rest)
      | some e => (none, some e, vl.rest)

/-! ### key / listItem -/

def keyStop (m : Mode) (c : Char) : Bool :=
  match m with
  | .literal => c = '=' || c = '[' || c = '.'
  | _ => c = '=' || c = '[' || c = ',' || c = '.'

def esc (m : Mode) : Bool := !m.isLiteral

/-- `keyIndex`: (index, error, rest) -/
def keyIndex (m : Mode) (s : Str) : Except E Int × Str :=
  match runesUntil (esc m) (fun c => c = ']') s [] with
  | (_, none, rest) => (.error .eof, rest)
  | (v, some _, rest) =>
    match atoi v with
    | some i => (.ok i, rest)
    | none => (.error .err, rest)

structure KR where
  data : Tbl
  err : Option E
  rest : Str

structure LR where
  list : VList
  err : Option E
  rest : Str

mutual
  /-- `parser.key(data, nestedNameLevel)` with its `recover`. Fuel ≥ remaining input + 1. -/
  def key (m : Mode) : Nat → Tbl → Nat → Str → KR
    | 0, data, _, s => ⟨data, some .err, s⟩
    | fuel + 1, data, level, s =>
      match runesUntil (esc m) (keyStop m) s [] with
      | (k, none, rest) =>
        if k.isEmpty then ⟨data, some .eof, rest⟩ else ⟨data, some .err, rest⟩
      | (k, some '[', rest) =>
        match keyIndex m rest with
        | (.error _, rest1) => ⟨data, some .err, rest1⟩
        | (.ok i, rest1) =>
          match (match data.get? (String.ofList k) with
                  | none => some VList.nil
                  | some (.list l) => some l
                  | some _ => none) with
          | none => ⟨data, some .err, rest1⟩            -- type assertion panics; recovered here
          | some list =>
            let r := listItem m fuel list i level rest1
            match r.err with
            | some .panic => ⟨data, some .err, r.rest⟩   -- recovered: nothing set at this level
            | e => ⟨set data k (.list r.list), e, r.rest⟩
      | (k, some '=', rest) =>
        match rhs m rest with
        | (some v, e, rest1) => ⟨set data k v, e, rest1⟩
        | (none, e, rest1) => ⟨data, e, rest1⟩
      | (k, some ',', rest) => ⟨set data k (.str ""), some .err, rest⟩
      | (k, some _, rest) =>     -- '.'
        if level + 1 > Helm.Gen.maxNestedNameLevel then ⟨data, some .err, rest⟩
        else
          match (match data.get? (String.ofList k) with
                  | none => some Tbl.nil
                  | some (.tbl t) => some t
                  | some _ => none) with
          | none => ⟨data, some .err, rest⟩             -- type assertion panics; recovered here
          | some inner =>
            let r := key m fuel inner (level + 1) rest
            if r.err.isNone && r.data.isEmpty then ⟨data, some .err, r.rest⟩
            else if !r.data.isEmpty then ⟨set data k (.tbl r.data), r.err, r.rest⟩
            else ⟨data, r.err, r.rest⟩

  /-- `parser.listItem(list, i, nestedNameLevel)` (no `recover` of its own). -/
  def listItem (m : Mode) : Nat → VList → Int → Nat → Str → LR
    | 0, list, _, _, s => ⟨list, some .err, s⟩
    | fuel + 1, list, i, level, s =>
      if i < 0 then ⟨list, some .err, s⟩
      else
        match runesUntil (esc m) (fun c => c = '[' || c = '.' || c = '=') s [] with
        | (k, last, rest) =>
          if !k.isEmpty then ⟨list, some .err, rest⟩
          else match last with
            | none => ⟨list, some .eof, rest⟩
            | some '=' =>
              match rhs m rest with
              | (some v, e, rest1) =>
                if !m.isLiteral && e == some .eof then
                  -- valList hit EOF: setIndex(list, i, "")
                  match setIndex list i (.str "") with
                  | .ok l => ⟨l, none, rest1⟩
                  | .error e' => ⟨list, some e', rest1⟩
                else match setIndex list i v with
                  | .ok l => ⟨l, none, rest1⟩
                  | .error e' => ⟨list, some e', rest1⟩
              | (none, e, rest1) => ⟨list, e, rest1⟩
            | some '[' =>
              match keyIndex m rest with
              | (.error _, rest1) => ⟨list, some .err, rest1⟩
              | (.ok nextI, rest1) =>
                match (match list.get? i.toNat with
                        | none => some VList.nil
                        | some .null => some VList.nil
                        | some (.list l) => some l
                        | some _ => none) with
                | none => ⟨list, some .panic, rest1⟩     -- list[i].([]interface{}) panics
                | some crt =>
                  let r := listItem m fuel crt nextI level rest1
                  match r.err with
                  | some e =>
                    -- `return list, err`: what the recursion wrote in place into an existing inner
                    -- list stays visible (same backing array)
                    match list.get? i.toNat with
                    | some (.list _) => ⟨list.setAt i.toNat (.list r.list), some e, r.rest⟩
                    | _ => ⟨list, some e, r.rest⟩
                  | none =>
                    match setIndex list i (.list r.list) with
                    | .ok l => ⟨l, none, r.rest⟩
                    | .error e' => ⟨list, some e', r.rest⟩
            | some _ =>    -- '.'
              let (list1, inner) := match list.get? i.toNat with
                | none => (list, Tbl.nil)
                | some (.tbl t) => (list, t)
                | some _ => (list.setAt i.toNat (.tbl .nil), Tbl.nil)   -- "indices out of order"
              let r := key m fuel inner level rest
              match r.err with
              | some e =>
                -- `return list, e`: when the element exists, `inner` is the map stored in the list
                -- (found there, or just put there): what `key` set before failing stays visible
                match list.get? i.toNat with
                | some _ => ⟨list1.setAt i.toNat (.tbl r.data), some e, r.rest⟩
                | none => ⟨list1, some e, r.rest⟩
              | none =>
                match setIndex list1 i (.tbl r.data) with
                | .ok l => ⟨l, none, r.rest⟩
                | .error e' => ⟨list1, some e', r.rest⟩
end

/-- `parser.parse()`: keys until EOF or error.  `none` = success. -/
def parseLoop (m : Mode) : Nat → Tbl → Str → Tbl × Option E
  | 0, data, _ => (data, some .err)
  | fuel + 1, data, s =>
    let r := key m (s.length + 1) data 0 s
    match r.err with
    | none => parseLoop m fuel r.data r.rest
    | some .eof => (r.data, none)
    | some e => (r.data, some e)

/-- `ParseInto` / `ParseIntoString` / `ParseLiteralInto`. -/
def parseInto (m : Mode) (s : Str) (dest : Tbl) : Tbl × Option E :=
  parseLoop m (s.length + 2) dest s

end Helm.Strvals
