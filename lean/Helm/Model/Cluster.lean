/-
M7 / M5b: the cluster side.
  pkg/kube/client.go       Client.update (create missing, patch existing, delete original∖target
                           unless the live object carries the keep policy), Create, Delete
  pkg/action/validate.go   existingResourceConflict / requireAdoption / checkOwnership / setMetadataVisitor
  pkg/action/resource_policy.go filterManifestsToKeep;  pkg/action/uninstall.go deleteRelease
  the cluster-facing part of install / upgrade / rollback / uninstall (no hooks here: Hooks.lean)
Objects are flat: data fields, labels, annotations (maps as association lists).
The patch semantics are the defining equations of a three-way merge on maps (typed kinds:
strategic merge patch computed by client-go and applied by the API server -- not modelled
beyond that), of the two-way JSON merge patch Helm uses for unstructured kinds, and of replace.
All requests are accepted (C02's premise); ownership conflicts are the only refusals.
-/
namespace Helm.Cluster

abbrev SMap := List (String × String)

def SMap.get? (m : SMap) (k : String) : Option String := (m.find? (·.1 = k)).map (·.2)
def SMap.erase (m : SMap) (k : String) : SMap := m.filter (·.1 ≠ k)
def SMap.set (m : SMap) (k v : String) : SMap := m.erase k ++ [(k, v)]
def SMap.keys (m : SMap) : List String := m.map (·.1)
/-- `mergeStrStrMaps(current, desired)`: the right one wins -/
def SMap.merge (cur desired : SMap) : SMap := desired.foldl (fun acc kv => acc.set kv.1 kv.2) cur

structure Obj where
  key : String                 -- kind/namespace/name
  typed : Bool := true         -- a kind known to the scheme (strategic merge) or unstructured
  data : SMap := []
  labels : SMap := []
  annos : SMap := []
  deriving Repr, DecidableEq, Inhabited

abbrev Store := List Obj         -- the cluster: at most one object per key

def Store.get? (s : Store) (k : String) : Option Obj := s.find? (·.key = k)
def Store.del (s : Store) (k : String) : Store := s.filter (·.key ≠ k)
def Store.put (s : Store) (o : Obj) : Store := s.del o.key ++ [o]

inductive Ev where
  | get (k : String) | create (k : String) | patch (k : String) | replace (k : String) | delete (k : String)
  deriving Repr, DecidableEq, Inhabited

def Ev.isWrite : Ev → Bool
  | .get _ => false
  | _ => true

def Ev.key : Ev → String
  | .get k | .create k | .patch k | .replace k | .delete k => k

def managedByLabel := "app.kubernetes.io/managed-by"
def releaseNameAnno := "meta.helm.sh/release-name"
def releaseNsAnno := "meta.helm.sh/release-namespace"
def policyAnno := "helm.sh/resource-policy"

/-- `checkOwnership(obj, releaseName, releaseNamespace)` -/
def owned (o : Obj) (rel ns : String) : Bool :=
  o.labels.get? managedByLabel = some "Helm" &&
  o.annos.get? releaseNameAnno = some rel &&
  o.annos.get? releaseNsAnno = some ns

/-- `setMetadataVisitor(rel, ns, force = true)` -/
def stamp (rel ns : String) (o : Obj) : Obj :=
  { o with labels := o.labels.merge [(managedByLabel, "Helm")],
           annos := o.annos.merge [(releaseNameAnno, rel), (releaseNsAnno, ns)] }

/-! ### patches -/

/-- three-way merge of one map: fields of `new` win; fields `old` had and `new` dropped are
removed; everything else of the live object stays -/
def merge3 (live old new : SMap) : SMap :=
  (live.filter fun kv => (new.get? kv.1).isNone && (old.get? kv.1).isNone) ++ new

/-- two-way JSON merge patch old→new applied to live: only what changed between the two
manifests is sent -/
def merge2 (live old new : SMap) : SMap :=
  let changed : SMap := new.filter fun kv => old.get? kv.1 ≠ some kv.2
  let removed : List String := old.keys.filter fun k => (new.get? k).isNone
  (live.filter fun kv => (SMap.get? changed kv.1).isNone && !removed.contains kv.1) ++ changed

/-- same map (as a set of bindings)? -/
def SMap.same (a b : SMap) : Bool :=
  a.all (fun kv => b.get? kv.1 = some kv.2) && b.all (fun kv => a.get? kv.1 = some kv.2)

/-- is the two-way patch old→new non-empty? -/
def diff2 (old new : SMap) : Bool := !SMap.same old new

/-- `updateResource`: what the live object becomes, and whether a PATCH/PUT is sent (an empty
patch only refreshes).  Three-way: the patch is computed against the live object; two-way: from
the two manifests alone. -/
def patched (force threeWayUnstructured : Bool) (live old new : Obj) : Obj × Bool :=
  if force then (new, true)
  else
    let three := new.typed || threeWayUnstructured
    -- a map the old manifest had and the new one drops altogether is removed as a whole
    let m := fun (l o n : SMap) => if n.isEmpty && !o.isEmpty then [] else (if three then merge3 l o n else merge2 l o n)
    let r : Obj := { live with data := m live.data old.data new.data, labels := m live.labels old.labels new.labels,
                                annos := m live.annos old.annos new.annos }
    -- three-way patch = deletions (old vs new, whatever the live object has) + what the live
    -- object lacks of new; two-way patch = old vs new only
    let sent3 := fun (l o n : SMap) => o.keys.any (fun k => (n.get? k).isNone) || n.any (fun kv => l.get? kv.1 ≠ some kv.2)
    let sent := if three then sent3 live.data old.data new.data || sent3 live.labels old.labels new.labels || sent3 live.annos old.annos new.annos
                else diff2 old.data new.data || diff2 old.labels new.labels || diff2 old.annos new.annos
    (r, sent)

structure UpRes where
  store : Store
  log : List Ev
  created : List String := []
  err : Bool := false
  rej : List String := []      -- fault plan: objects whose creation the API server rejects
  deriving Repr, DecidableEq, Inhabited

/-- one target of the first loop of `Client.update`: create it when the cluster has no such
object, otherwise patch (or replace) the live object against the original manifest -/
def stepTarget (force three : Bool) (original : List Obj) (t : Obj) (r : UpRes) : UpRes :=
  let log1 := r.log ++ [.get t.key]
  match r.store.get? t.key with
  | none =>
    -- "failed to create resource"; the resource is listed as created even so (`res.Created` is appended before the request)
    if r.rej.contains t.key then { r with log := log1 ++ [.create t.key], created := r.created ++ [t.key], err := true }
    else { r with store := r.store.put t, log := log1 ++ [.create t.key], created := r.created ++ [t.key] }
  | some live =>
    match original.find? (·.key = t.key) with
    | none => { r with log := log1, err := true }          -- "no X with the name ... found"
    | some old =>
      let p := patched force three live old t
      { r with store := if p.2 then r.store.put p.1 else r.store,
               log := log1 ++ (if force then [.replace t.key] else if p.2 then [.get t.key, .patch t.key] else [.get t.key, .get t.key]) }

/-- the first loop of `Client.update`: every target, in order, until the first error -/
def updateTargets (force three : Bool) (original : List Obj) : List Obj → UpRes → UpRes
  | [], r => r
  | t :: rest, r => if r.err then r else updateTargets force three original rest (stepTarget force three original t r)

/-- one original of the second loop: delete it unless the target has it, the cluster lacks it,
or the live object carries the keep policy -/
def stepDelete (target : List Obj) (o : Obj) (r : UpRes) : UpRes :=
  if (target.find? (·.key = o.key)).isSome then r
  else
    let log1 := r.log ++ [.get o.key]
    match r.store.get? o.key with
    | none => { r with log := log1 }
    | some live =>
      if live.annos.get? policyAnno = some "keep" then { r with log := log1 }
      else { r with store := r.store.del o.key, log := log1 ++ [.delete o.key] }

/-- the second loop: `original.Difference(target)` -/
def deleteRemoved (target : List Obj) : List Obj → UpRes → UpRes
  | [], r => r
  | o :: rest, r => deleteRemoved target rest (stepDelete target o r)

/-- `Client.update(original, target, force, threeWayMergeForUnstructured)` -/
def updateR (rej : List String) (force three : Bool) (original target : List Obj) (s : Store) : UpRes :=
  let r := updateTargets force three original target { store := s, log := [], rej := rej }
  if r.err then r else deleteRemoved target original r

/-- ... on a cluster that accepts every request -/
def update (force three : Bool) (original target : List Obj) (s : Store) : UpRes :=
  updateR [] force three original target s

/-! ### ownership pre-flight -/

/-- may this release take the live object?  (`checkOwnership`, or anything with take-ownership) -/
def mayAdopt (takeOwnership : Bool) (rel ns : String) (live : Obj) : Bool := takeOwnership || owned live rel ns

/-- one resource of the pre-flight visit: a GET; an existing object is adopted or refuses the operation -/
def pfStep (takeOwnership : Bool) (rel ns : String) (s : Store) (acc : Option (List Obj) × List Ev) (r : Obj) :
    Option (List Obj) × List Ev :=
  match acc.1 with
  | none => acc
  | some adopted =>
    match s.get? r.key with
    | none => (some adopted, acc.2 ++ [.get r.key])
    | some live =>
      if mayAdopt takeOwnership rel ns live then (some (adopted ++ [r]), acc.2 ++ [.get r.key])
      else (none, acc.2 ++ [.get r.key])

/-- `existingResourceConflict` (or `requireAdoption` with take-ownership): the resources that
exist already and may be adopted, or a refusal -/
def preflight (takeOwnership : Bool) (rel ns : String) (resources : List Obj) (s : Store) :
    Option (List Obj) × List Ev :=
  resources.foldl (pfStep takeOwnership rel ns s) (some [], [])

/-! ### the cluster side of the four operations (hooks aside) -/

structure OpRes where
  store : Store
  log : List Ev
  ok : Bool
  deriving Repr, DecidableEq, Inhabited

def installCluster (rel ns : String) (takeOwnership force dryRun : Bool) (manifest : List Obj) (s : Store)
    (rej : List String := []) : OpRes :=
  let resources := manifest.map (stamp rel ns)
  match preflight takeOwnership rel ns resources s with
  | (none, log) => ⟨s, log, false⟩
  | (some adopted, log) =>
    if dryRun then ⟨s, log, true⟩
    else if adopted.isEmpty then
      -- Create: every resource is new; all are attempted (batchPerform does not stop at an error)
      let s' := (resources.filter fun r => !rej.contains r.key).foldl (fun acc r => acc.put r) s
      ⟨s', log ++ resources.map (fun r => .create r.key), !resources.any fun r => rej.contains r.key⟩
    else
      let r := updateR rej force takeOwnership adopted resources s
      ⟨r.store, log ++ r.log, !r.err⟩

def upgradeCluster (rel ns : String) (takeOwnership force dryRun : Bool) (current target : List Obj) (s : Store)
    (rej : List String := []) : OpRes :=
  let target' := target.map (stamp rel ns)
  let toBeCreated := target'.filter fun t => (current.find? (·.key = t.key)).isNone
  match preflight takeOwnership rel ns toBeCreated s with
  | (none, log) => ⟨s, log, false⟩
  | (some adopted, log) =>
    if dryRun then ⟨s, log, true⟩
    else
      let r := updateR rej force false (current ++ adopted) target' s
      ⟨r.store, log ++ r.log, !r.err⟩

def rollbackCluster (rel ns : String) (force : Bool) (current target : List Obj) (s : Store)
    (rej : List String := []) : OpRes :=
  let r := updateR rej force false current (target.map (stamp rel ns)) s
  ⟨r.store, r.log, !r.err⟩

def isSpace (c : Char) : Bool := c = ' ' || c = '\t' || c = '\n' || c = '\r' || c = '\x0b' || c = '\x0c'
def lowerChar (c : Char) : Char := if 'A' ≤ c ∧ c ≤ 'Z' then Char.ofNat (c.toNat + 32) else c
/-- `strings.ToLower(strings.TrimSpace(v))`, ASCII part -/
def normPolicy (v : String) : List Char :=
  (((v.toList.dropWhile isSpace).reverse.dropWhile isSpace).reverse).map lowerChar

/-- `Upgrade.failRelease` on the cluster side: with cleanup-on-fail the resources the failed update
listed as created are deleted; with atomic the release is rolled back to the deployed manifest
-- `rollbackTo`: the manifest of the newest revision marked superseded or deployed, if atomic is
set and there is one -- the failed revision's manifest being the one rolled back from -/
def upgradeFull (rel ns : String) (takeOwnership force cleanupOnFail : Bool) (rollbackTo : Option (List Obj))
    (current target : List Obj) (s : Store) (rej : List String := []) : OpRes :=
  let target' := target.map (stamp rel ns)
  let toBeCreated := target'.filter fun t => (current.find? (·.key = t.key)).isNone
  match preflight takeOwnership rel ns toBeCreated s with
  | (none, log) => ⟨s, log, false⟩
  | (some adopted, log) =>
    let r := updateR rej force false (current ++ adopted) target' s
    if !r.err then ⟨r.store, log ++ r.log, true⟩
    else
      let s1 := if cleanupOnFail then r.created.foldl (fun acc k => acc.del k) r.store else r.store
      let log1 := log ++ r.log ++ (if cleanupOnFail then r.created.map Ev.delete else [])
      match rollbackTo with
      | some prev =>
        let rb := rollbackCluster rel ns force target prev s1 rej
        ⟨rb.store, log1 ++ rb.log, false⟩
      | none => ⟨s1, log1, false⟩

/-- `filterManifestsToKeep` on the manifest (not the live object): keep (some true) or delete
(some false); any value of the annotation other than keep means delete -/
def keepClass (o : Obj) : Option Bool :=
  match o.annos.get? policyAnno with
  | none => some false
  | some v => if normPolicy v = ['k', 'e', 'e', 'p'] then some true else some false

structure UnRes where
  store : Store
  log : List Ev
  kept : List String
  deriving Repr, DecidableEq, Inhabited

def uninstallCluster (manifest : List Obj) (s : Store) : UnRes :=
  let toDelete := manifest.filter fun o => keepClass o = some false
  let kept := (manifest.filter fun o => keepClass o = some true).map (·.key)
  let s' := toDelete.foldl (fun acc o => acc.del o.key) s
  ⟨s', toDelete.map (fun o => .delete o.key), kept⟩

end Helm.Cluster
