/-
M9 (credentials): pkg/getter/httpgetter.go (the same-origin test before SetBasicAuth, option
folding), and the option flows of pkg/downloader/chart_downloader.go ResolveChartVersion,
pkg/action/install.go LocateChart, pkg/action/pull.go Pull.Run, pkg/downloader/manager.go
downloadAll + findChartURL.
Parameters: URL parsing (net/url: the harness hands scheme and host-with-port of every URL to
the model).  Not modelled: TLS options, redirects (Go's own header policy), OCI.
-/
namespace Helm.Creds

/-- scheme and host (host includes the port when present), as `url.Parse` reports them -/
structure Origin where
  scheme : String
  host : String
  deriving Repr, DecidableEq, Inhabited

/-- the getter options that matter here -/
structure Opts where
  url : Origin := ⟨"", ""⟩       -- `WithURL`; unset parses as the empty URL
  user : String := ""
  pass : String := ""
  passAll : Bool := false
  deriving Repr, DecidableEq, Inhabited

inductive Opt where
  | withURL (o : Origin)
  | basicAuth (u p : String)
  | passAll (b : Bool)
  deriving Repr, DecidableEq, Inhabited

def applyOpt (o : Opts) : Opt → Opts
  | .withURL u => { o with url := u }
  | .basicAuth u p => { o with user := u, pass := p }
  | .passAll b => { o with passAll := b }

/-- options are applied in order; later ones override -/
def applyOpts (o : Opts) (l : List Opt) : Opts := l.foldl applyOpt o

def sameOrigin (a b : Origin) : Bool := a.scheme = b.scheme && a.host = b.host

/-- `HTTPGetter.get`: is the Authorization header set on a request to `href`? -/
def sendsAuth (o : Opts) (href : Origin) : Bool :=
  (o.passAll || sameOrigin o.url href) && (o.user ≠ "" && o.pass ≠ "")

/-- a configured repository -/
structure Repo where
  url : Origin
  user : String := ""
  pass : String := ""
  passAll : Bool := false
  deriving Repr, DecidableEq, Inhabited

def Repo.hasCreds (r : Repo) : Bool := r.user ≠ "" && r.pass ≠ ""

/-- the options `ResolveChartVersion` appends for a repository it has identified
(by name, or as the owner of an absolute chart URL) -/
def repoOpts (rc : Repo) : List Opt :=
  .withURL rc.url :: (if rc.hasCreds then [.basicAuth rc.user rc.pass, .passAll rc.passAll] else [])

/-- `ResolveChartVersion` for an absolute URL `ref`: `owner` = the repository found by
`scanReposForURL` (none → `ErrNoOwnerRepo`, the ref itself becomes the getter URL). -/
def resolveAbs (initial : List Opt) (ref : Origin) (owner : Option Repo) : List Opt :=
  match owner with
  | none => initial ++ [.withURL ref]
  | some rc => initial ++ repoOpts rc

/-- `ResolveChartVersion` for `reponame/chart`: the named repository's options; the request goes
to the (possibly absolute, possibly foreign) URL listed in that repository's index. -/
def resolveNamed (initial : List Opt) (rc : Repo) : List Opt := initial ++ repoOpts rc

/-- `ChartPathOptions.LocateChart` with `--repo`: credentials are kept only when the chart URL is
on the repository's origin or pass-credentials is set; then `DownloadTo(chartURL)`. -/
def locateChartRepoURL (user pass : String) (passAll : Bool) (repoURL chartURL : Origin)
    (owner : Option Repo) : List Opt :=
  let initial : List Opt := [.passAll passAll, .basicAuth user pass] ++
    (if passAll || sameOrigin repoURL chartURL then [.basicAuth user pass] else [.basicAuth "" ""])
  resolveAbs initial chartURL owner

/-- `Pull.Run` with `--repo`: the initial options keep the credentials unconditionally. -/
def pullRepoURL (user pass : String) (passAll : Bool) (chartURL : Origin) (owner : Option Repo) : List Opt :=
  resolveAbs [.basicAuth user pass, .passAll passAll] chartURL owner

/-- `Manager.downloadAll`: credentials of the dependency's repository (as found by `findChartURL`),
then `DownloadTo(churl)`. -/
def managerDownload (depRepo : Repo) (churl : Origin) (owner : Option Repo) : List Opt :=
  resolveAbs [.basicAuth depRepo.user depRepo.pass, .passAll depRepo.passAll] churl owner

end Helm.Creds
