/-
Model of pkg/kube/client.go:batchPerform (called through pkg/kube/wait.go:perform):
one goroutine per resource, `wg.Wait()` whenever the kind changes.
The resource list is abstracted to its list of kinds.  A schedule is any list of events
accepted by `step`.  Assumes the documented semantics of sync.WaitGroup: `Wait` returns only
when every `Add` has been matched by a `Done`.
-/
namespace Helm.Barrier

structure BState where
  next : Nat := 0              -- index of the next resource of the `for` loop
  cur : String := ""           -- the variable `kind`
  running : List Nat := []     -- tasks spawned (wg.Add) and not yet Done
  finished : List Nat := []    -- tasks that called wg.Done
  deriving Repr, DecidableEq

inductive Ev where
  | spawn            -- one iteration of the loop: (Wait if the kind changes), Add, go
  | finish (j : Nat) -- task j: fn returned, wg.Done()
  deriving Repr, DecidableEq

/-- One step; `none` when the event is not enabled (e.g. `wg.Wait()` would still block). -/
def step (ks : List String) (s : BState) : Ev → Option BState
  | .spawn =>
    match ks[s.next]? with
    | none => none
    | some k =>
      if k = s.cur then some { s with next := s.next + 1, running := s.next :: s.running }
      else if s.running.isEmpty then
        some { s with next := s.next + 1, cur := k, running := [s.next] }
      else none
  | .finish j =>
    if j ∈ s.running then
      some { s with running := s.running.erase j, finished := j :: s.finished }
    else none

def run (ks : List String) : BState → List Ev → Option BState
  | s, [] => some s
  | s, e :: es => (step ks s e).bind fun s' => run ks s' es

/-- Trace validation entry point: is the observed event sequence a run of the model? -/
def accepts (ks : List String) (tr : List Ev) : Bool := (run ks {} tr).isSome

end Helm.Barrier
