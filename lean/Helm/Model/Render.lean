/-
pkg/engine/engine.go sortTemplates / byPathLen: the order in which templates are parsed and
executed (the keys come out of a Go map, i.e. in arbitrary order).
-/
namespace Helm.Render

def countSlash (s : String) : Nat := s.toList.count '/'

/-- `byPathLen.Less(a, b)` -/
def lessTpl (a b : String) : Bool :=
  if countSlash a = countSlash b then decide (a < b) else decide (countSlash a < countSlash b)

/-- `sort.Sort(sort.Reverse(byPathLen(keys)))` for distinct keys: descending in `lessTpl`. -/
def geTpl (a b : String) : Bool := !lessTpl a b

def sortTemplates (keys : List String) : List String := keys.mergeSort geTpl

end Helm.Render
