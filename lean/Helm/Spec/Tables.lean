/-
Hand-written expectations for the facts regenerated into Helm/Gen/Tables.lean.
A property theorem `Gen.x = Spec.x` (by `decide`) is re-checked at every run; a changed
table in /repo breaks that obligation.
-/
namespace Helm.Spec

def installOrder : List String := ["PriorityClass", "Namespace", "NetworkPolicy", "ResourceQuota", "LimitRange", "PodSecurityPolicy", "PodDisruptionBudget", "ServiceAccount", "Secret", "SecretList", "ConfigMap", "StorageClass", "PersistentVolume", "PersistentVolumeClaim", "CustomResourceDefinition", "ClusterRole", "ClusterRoleList", "ClusterRoleBinding", "ClusterRoleBindingList", "Role", "RoleList", "RoleBinding", "RoleBindingList", "Service", "DaemonSet", "Pod", "ReplicationController", "ReplicaSet", "Deployment", "HorizontalPodAutoscaler", "StatefulSet", "Job", "CronJob", "IngressClass", "Ingress", "APIService", "MutatingWebhookConfiguration", "ValidatingWebhookConfiguration"]

def uninstallOrder : List String := ["ValidatingWebhookConfiguration", "MutatingWebhookConfiguration", "APIService", "Ingress", "IngressClass", "Service", "CronJob", "Job", "StatefulSet", "HorizontalPodAutoscaler", "Deployment", "ReplicaSet", "ReplicationController", "Pod", "DaemonSet", "RoleBindingList", "RoleBinding", "RoleList", "Role", "ClusterRoleBindingList", "ClusterRoleBinding", "ClusterRoleList", "ClusterRole", "CustomResourceDefinition", "PersistentVolumeClaim", "PersistentVolume", "StorageClass", "ConfigMap", "SecretList", "Secret", "ServiceAccount", "PodDisruptionBudget", "PodSecurityPolicy", "LimitRange", "ResourceQuota", "NetworkPolicy", "Namespace", "PriorityClass"]

/-- annotation word ↦ event, sorted by word. -/
def hookEvents : List (String × String) := [("post-delete", "post-delete"), ("post-install", "post-install"), ("post-rollback", "post-rollback"), ("post-upgrade", "post-upgrade"), ("pre-delete", "pre-delete"), ("pre-install", "pre-install"), ("pre-rollback", "pre-rollback"), ("pre-upgrade", "pre-upgrade"), ("test", "test"), ("test-success", "test")]

end Helm.Spec

namespace Helm.Spec
/-- Order in which `Options.MergeValues` applies the value-flag families (later wins):
-f files < --set-json < --set < --set-string < --set-file < --set-literal. -/
def valueFlagOrder : List String := ["ValueFiles", "JSONValues", "Values", "StringValues", "FileValues", "LiteralValues"]
end Helm.Spec

namespace Helm.Spec
/-- functions removed from the sprig map: the only ones that read the process environment -/
def sprigDeleted : List String := ["env", "expandenv"]
/-- functions Helm adds; classification: all pure except `lookup` (cluster) -/
def extraFuncs : List String := ["fromJson", "fromJsonArray", "fromToml", "fromYaml", "fromYamlArray", "include", "lookup", "required", "toJson", "toToml", "toYaml", "toYamlPretty", "tpl"]
end Helm.Spec
