/-
Expected effect skeletons of the actions: in source order, the storage / cluster / hook calls
and the status assignments of each function (see harness/cmd/extract/skeleton.go).  Written from
the source the models were read from; `Helm.Gen.skel*` is regenerated from /repo at every run and
proved equal to these in Helm/Props.  A reordering of calls in the Go code changes the
regenerated list and breaks that theorem.
-/
namespace Helm.Spec

def skelInstallRun : List String := ["KubeClient.IsReachable", "i.isDryRun", "i.availableName", "i.isDryRun", "i.isDryRun", "i.installCRDs", "i.isDryRun", "requireAdoption", "existingResourceConflict", "i.isDryRun", "KubeClient.Create", "i.replaceRelease", "Releases.Create", "i.performInstallCtx", "i.failRelease"]
def skelInstallPerform : List String := ["cfg.execHook:HookPreInstall", "KubeClient.Create", "KubeClient.UpdateThreeWayMerge", "KubeClient.Update", "waiter.WaitWithJobs", "waiter.Wait", "cfg.execHook:HookPostInstall", "i.recordRelease"]
def skelInstallFail : List String := ["i.recordRelease"]
def skelUpgradePrepare : List String := ["u.isDryRun", "Releases.Last", "Releases.Deployed", "u.reuseValues", "u.isDryRun"]
def skelUpgradePerform : List String := ["requireAdoption", "existingResourceConflict", "u.isDryRun", "Releases.Create", "u.releasingUpgrade"]
def skelUpgradeReleasing : List String := ["cfg.execHook:HookPreUpgrade", "KubeClient.Update", "cfg.recordRelease", "cfg.recordRelease", "waiter.WaitWithJobs", "cfg.recordRelease", "waiter.Wait", "cfg.recordRelease", "cfg.execHook:HookPostUpgrade", "set originalRelease StatusSuperseded", "cfg.recordRelease", "set upgradedRelease StatusDeployed"]
def skelUpgradeFail : List String := ["set rel StatusFailed", "cfg.recordRelease", "KubeClient.Delete"]
def skelRollbackPrepare : List String := ["Releases.Last", "Releases.History", "Releases.Get"]
def skelRollbackPerform : List String := ["cfg.execHook:HookPreRollback", "r.failRollback", "KubeClient.Update", "set currentRelease StatusSuperseded", "set targetRelease StatusFailed", "cfg.recordRelease", "cfg.recordRelease", "KubeClient.Delete", "waiter.WaitWithJobs", "cfg.recordRelease", "cfg.recordRelease", "waiter.Wait", "cfg.recordRelease", "cfg.recordRelease", "cfg.execHook:HookPostRollback", "r.failRollback", "set rel StatusSuperseded", "cfg.recordRelease", "set targetRelease StatusDeployed"]
def skelRollbackFail : List String := ["set targetRelease StatusFailed", "cfg.recordRelease"]
def skelUninstallRun : List String := ["KubeClient.IsReachable", "Releases.History", "u.purgeReleases", "set rel StatusUninstalling", "cfg.execHook:HookPreDelete", "Releases.Update", "u.deleteRelease", "waiter.WaitForDelete", "cfg.execHook:HookPostDelete", "set rel StatusUninstalled", "u.purgeReleases", "Releases.Update"]
def skelExecHook : List String := ["cfg.deleteHookByPolicy:HookBeforeHookCreation", "cfg.recordRelease", "KubeClient.Create", "waiter.WatchUntilReady", "cfg.deleteHookByPolicy:HookFailed", "cfg.deleteHooksByPolicy:HookSucceeded", "cfg.deleteHookByPolicy:HookSucceeded"]

/-- `a` occurs, and every occurrence of `a` comes before the first occurrence of `b`, which occurs -/
def precedes (a b : String) (l : List String) : Bool :=
  let pre := l.takeWhile (· != b)
  let post := l.dropWhile (· != b)
  pre.contains a && !post.contains a && !post.isEmpty

/-- in a table of field assignments (field, source expression), `f` is assigned exactly once, from `e` -/
def onlySource (t : List (String × String)) (f e : String) : Bool :=
  t.filter (fun p => p.1 == f) == [(f, e)]

/-- every listed field is assigned exactly once, from the same-named field of `recv` (given as "recv.") -/
def forwardsAll (t : List (String × String)) (fields : List (String × String)) : Bool :=
  fields.all (fun p => onlySource t p.1 p.2)

end Helm.Spec
