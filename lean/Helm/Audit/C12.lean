import Helm.Props.C12
#print axioms Helm.Props.C12.executing_hooks_sorted
#print axioms Helm.Props.C12.hookLe_spec
#print axioms Helm.Props.C12.executing_hooks_perm
#print axioms Helm.Props.C12.selected_iff
#print axioms Helm.Props.C12.executing_hooks_stable
#print axioms Helm.Props.C12.created_in_order
#print axioms Helm.Props.C12.one_at_a_time
#print axioms Helm.Props.C12.all_succeed_trace
#print axioms Helm.Props.C12.first_failure_trace
#print axioms Helm.Props.C12.ok_means_all_ran
#print axioms Helm.Props.C12.pre_hook_failure_gates
#print axioms Helm.Props.C12.hook_traces_have_no_resource_phase
#print axioms Helm.Props.C12.pre_hook_failure_no_resource_event
#print axioms Helm.Props.C12.post_hook_failure_fails_operation
#print axioms Helm.Props.C12.operation_order
#print axioms Helm.Props.C12.disabled_hooks_none_created
#print axioms Helm.Props.C12.counterexample_succeeded_not_deleted_on_create_failure
