import Helm.Props.C10
#print axioms Helm.Props.C10.obj_step
#print axioms Helm.Props.C10.obj_run
#print axioms Helm.Props.C10.create_existing_fails
#print axioms Helm.Props.C10.get_missing_fails
#print axioms Helm.Props.C10.get_returns_stored
#print axioms Helm.Props.C10.update_missing_fails_and_changes_nothing
#print axioms Helm.Props.C10.delete_missing_fails_and_changes_nothing
#print axioms Helm.Props.C10.delete_returns_stored
#print axioms Helm.Props.C10.list_skips_unreadable
#print axioms Helm.Props.C10.get_undecodable_is_error
#print axioms Helm.Props.C10.counterexample_memory_dotv
#print axioms Helm.Props.C10.mem_create_get
#print axioms Helm.Props.C10.memory_step
#print axioms Helm.Props.C10.memory_refines_map
#print axioms Helm.Props.C10.storage_keys_meet_guard
