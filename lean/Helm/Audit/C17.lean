import Helm.Props.C17
#print axioms Helm.Props.C17.verify_iff
#print axioms Helm.Props.C17.tampered_archive_fails
#print axioms Helm.Props.C17.untrusted_key_fails
#print axioms Helm.Props.C17.tampered_provenance_fails
#print axioms Helm.Props.C17.renamed_archive_fails
#print axioms Helm.Props.C17.sign_then_verify
#print axioms Helm.Props.C17.verify_always_propagates
#print axioms Helm.Props.C17.verify_always_never_unverified
