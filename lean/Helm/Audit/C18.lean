import Helm.Props.C18
#print axioms Helm.Props.C18.precedence_total
#print axioms Helm.Props.C18.precedence_trans
#print axioms Helm.Props.C18.load_keeps_exactly_valid
#print axioms Helm.Props.C18.load_sorted
#print axioms Helm.Props.C18.first_match_is_best
#print axioms Helm.Props.C18.get_returns_highest_satisfying
#print axioms Helm.Props.C18.get_exact_match_first
#print axioms Helm.Props.C18.get_none_is_error
#print axioms Helm.Props.C18.get_bad_constraint
#print axioms Helm.Props.C18.resolve_locks_highest
#print axioms Helm.Props.C18.tag_highest_satisfying
#print axioms Helm.Props.C18.load_with_nulls
#print axioms Helm.Props.C18.kept_iff
