import Helm.Props.C19
#print axioms Helm.Props.C19.auth_decision
#print axioms Helm.Props.C19.other_origin_gets_nothing
#print axioms Helm.Props.C19.options_fold
#print axioms Helm.Props.C19.applyOpts_repoOpts_creds
#print axioms Helm.Props.C19.named_repo_scoped
#print axioms Helm.Props.C19.owned_url_scoped
#print axioms Helm.Props.C19.locate_chart_scoped
#print axioms Helm.Props.C19.manager_scoped
#print axioms Helm.Props.C19.counterexample_pull_repo
#print axioms Helm.Props.C19.manager_unowned_sends
#print axioms Helm.Props.C19.counterexample_manager_foreign_owner
