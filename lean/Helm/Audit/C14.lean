import Helm.Props.C14
#print axioms Helm.Props.C14.failing_eq
#print axioms Helm.Props.C14.failingDeps_eq
#print axioms Helm.Props.C14.error_names_exactly_failing
#print axioms Helm.Props.C14.gate_iff
#print axioms Helm.Props.C14.skip_only_by_flag
#print axioms Helm.Props.C14.all_satisfied_passes
#print axioms Helm.Props.C14.upgrade_install_forwards_skip_flag
#print axioms Helm.Props.C14.skip_flag_bound
