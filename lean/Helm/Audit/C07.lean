import Helm.Props.C07
#print axioms Helm.Props.C07.owned_iff
#print axioms Helm.Props.C07.stamped_is_owned
#print axioms Helm.Props.C07.install_refuses_iff
#print axioms Helm.Props.C07.install_refusal_mutates_nothing
#print axioms Helm.Props.C07.upgrade_refusal_mutates_nothing
#print axioms Helm.Props.C07.install_refused_history_unchanged
#print axioms Helm.Props.C07.upgrade_refused_history_unchanged
#print axioms Helm.Props.C07.install_result_owned
#print axioms Helm.Props.C07.upgrade_result_owned
#print axioms Helm.Props.C07.update_deletes_confined
#print axioms Helm.Props.C07.upgrade_deletes_confined
#print axioms Helm.Props.C07.install_deletes_nothing
#print axioms Helm.Props.C07.rollback_deletes_confined
#print axioms Helm.Props.C07.counterexample_unstructured_adoption_not_stamped
#print axioms Helm.Props.C07.counterexample_crds_created_before_refusal
#print axioms Helm.Props.C07.ownership_check_position
#print axioms Helm.Props.C07.take_ownership_flag_bound
