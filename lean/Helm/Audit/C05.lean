import Helm.Props.C05
#print axioms Helm.Props.C05.sortTemplates_perm_invariant
#print axioms Helm.Props.C05.sortManifests_perm_invariant
#print axioms Helm.Props.C05.notes_rest_perm
#print axioms Helm.Props.C05.notes_perm_invariant
#print axioms Helm.Props.C05.notes_sorted_perm_invariant
#print axioms Helm.Props.C05.env_functions_removed
#print axioms Helm.Props.C05.extra_functions_are_spec
#print axioms Helm.Props.C05.dns_stubbed_unless_enabled
#print axioms Helm.Props.C05.render_loops_range_over_sorted_keys
