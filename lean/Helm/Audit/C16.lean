import Helm.Props.C16
#print axioms Helm.Props.C16.archive_name_safe
#print axioms Helm.Props.C16.clean_shape
#print axioms Helm.Props.C16.plugin_name_safe
#print axioms Helm.Props.C16.limits_are_spec
#print axioms Helm.Props.C16.size_accounting
#print axioms Helm.Props.C16.never_reads_beyond_limit
