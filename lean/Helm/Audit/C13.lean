import Helm.Props.C13
#print axioms Helm.Props.C13.reset_values
#print axioms Helm.Props.C13.reuse_overlays_key_by_key
#print axioms Helm.Props.C13.reuse_new_leaf_wins
#print axioms Helm.Props.C13.default_mode
#print axioms Helm.Props.C13.reuse_keeps_old_defaults
#print axioms Helm.Props.C13.other_modes_use_new_chart
#print axioms Helm.Props.C13.flag_precedence
#print axioms Helm.Props.C13.rollback_restores
#print axioms Helm.Props.C13.reuse_without_new_values
#print axioms Helm.Props.C13.carry_over_flags_bound
