import Helm.Props.C01
#print axioms Helm.Props.C01.create_keeps_unique
#print axioms Helm.Props.C01.update_keeps_revisions
#print axioms Helm.Props.C01.delete_keeps_unique
#print axioms Helm.Props.C01.create_existing_fails
#print axioms Helm.Props.C01.prune_never_deployed
#print axioms Helm.Props.C01.prune_bounded
#print axioms Helm.Props.C01.prune_oldest_first
#print axioms Helm.Props.C01.pruneLoop_only_candidates
#print axioms Helm.Props.C01.counterexample_replace_over_deployed
#print axioms Helm.Props.C01.counterexample_supersede_write_fails
#print axioms Helm.Props.C01.counterexample_success_not_recorded
#print axioms Helm.Props.C01.counterexample_atomic_exceeds_limit
#print axioms Helm.Props.C01.C01_full_is_false
#print axioms Helm.Props.C01.upgrade_success_spec
#print axioms Helm.Props.C01.install_success_spec
#print axioms Helm.Props.C01.action_skeletons_are_the_models
#print axioms Helm.Props.C01.upgrade_order_facts
