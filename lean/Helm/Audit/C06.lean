import Helm.Props.C06
#print axioms Helm.Props.C06.install_dry_run_writes_nothing
#print axioms Helm.Props.C06.upgrade_dry_run_writes_nothing
#print axioms Helm.Props.C06.rollback_dry_run_writes_nothing
#print axioms Helm.Props.C06.uninstall_dry_run_writes_nothing
#print axioms Helm.Props.C06.install_dry_run_cluster
#print axioms Helm.Props.C06.upgrade_dry_run_cluster
