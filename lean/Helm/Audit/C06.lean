import Helm.Props.C06
#print axioms Helm.Props.C06.install_dry_run_writes_nothing
#print axioms Helm.Props.C06.upgrade_dry_run_writes_nothing
#print axioms Helm.Props.C06.rollback_dry_run_writes_nothing
#print axioms Helm.Props.C06.uninstall_dry_run_writes_nothing
#print axioms Helm.Props.C06.install_dry_run_cluster
#print axioms Helm.Props.C06.upgrade_dry_run_cluster
#print axioms Helm.Props.C06.install_any_dry_run_spelling
#print axioms Helm.Props.C06.upgrade_any_dry_run_spelling
#print axioms Helm.Props.C06.client_only_sends_nothing
#print axioms Helm.Props.C06.dry_run_spellings_are_the_models
#print axioms Helm.Props.C06.upgrade_install_forwards_dry_run
#print axioms Helm.Props.C06.dry_run_flag_bound
