import Helm.Props.C03
#print axioms Helm.Props.C03.stUpdate_single
#print axioms Helm.Props.C03.install_failure_marks_failed
#print axioms Helm.Props.C03.rollback_hook_failure_marks_failed
#print axioms Helm.Props.C03.rollback_hook_failure_instance
#print axioms Helm.Props.C03.rollback_resource_failure_marks_failed
#print axioms Helm.Props.C03.rollback_update_failure_marks_failed
#print axioms Helm.Props.C03.atomic_install_failure_leaves_nothing
#print axioms Helm.Props.C03.upgrade_failure_contained
#print axioms Helm.Props.C03.atomic_upgrade_failure_restores
#print axioms Helm.Props.C03.upgrade_failure_contained_instance
#print axioms Helm.Props.C03.atomic_upgrade_restores_instance
#print axioms Helm.Props.C03.atomic_install_leaves_nothing_instance
#print axioms Helm.Props.C03.atomic_failure_is_rollback
#print axioms Helm.Props.C03.atomic_restores_previous_manifest
#print axioms Helm.Props.C03.cleanup_removes_created
#print axioms Helm.Props.C03.failure_paths_skeleton
#print axioms Helm.Props.C03.atomic_glue_forwards_flags
