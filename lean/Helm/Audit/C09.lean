import Helm.Props.C09
#print axioms Helm.Props.C09.each_revision_has_one_creator
#print axioms Helm.Props.C09.losers_touch_nothing
#print axioms Helm.Props.C09.mutation_only_after_own_record
#print axioms Helm.Props.C09.history_wellformed_at_quiescence
#print axioms Helm.Props.C09.at_most_one_operation_in_flight
#print axioms Helm.Props.C09.two_operations_all_interleavings
#print axioms Helm.Props.C09.three_operations_two_preemptions
#print axioms Helm.Props.C09.pruning_spares_concurrent_records
#print axioms Helm.Props.C09.pruning_bound_inert_when_alone
#print axioms Helm.Props.C09.pruning_bound_in_source
#print axioms Helm.Props.C09.pending_statuses_are_the_three
