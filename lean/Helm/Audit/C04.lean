import Helm.Props.C04
#print axioms Helm.Props.C04.mergeMaps_key
#print axioms Helm.Props.C04.later_file_wins
#print axioms Helm.Props.C04.earlier_file_kept
#print axioms Helm.Props.C04.last_of_many_files_wins
#print axioms Helm.Props.C04.value_survives_silent_files
#print axioms Helm.Props.C04.coalesce_key
#print axioms Helm.Props.C04.higher_precedence_wins
#print axioms Helm.Props.C04.null_removes_default
#print axioms Helm.Props.C04.null_kept_when_merging
#print axioms Helm.Props.C04.default_fills_gap
#print axioms Helm.Props.C04.valueFlagOrder_is_spec
#print axioms Helm.Props.C04.mergeValues_order
#print axioms Helm.Props.C04.limits_are_spec
#print axioms Helm.Props.C04.set_never_panics
#print axioms Helm.Props.C04.index_limit
