import Helm.Props.C11
#print axioms Helm.Props.C11.parent_view_untouched
#print axioms Helm.Props.C11.subchart_scope
#print axioms Helm.Props.C11.sibling_isolation
#print axioms Helm.Props.C11.globals_read_only_global
#print axioms Helm.Props.C11.globals_key
#print axioms Helm.Props.C11.ancestor_global_scalar_wins
#print axioms Helm.Props.C11.ancestor_global_nested_wins
#print axioms Helm.Props.C11.first_boolean_condition_decides
#print axioms Helm.Props.C11.tags_disable_iff
#print axioms Helm.Props.C11.enabled_iff
#print axioms Helm.Props.C11.alias_only
#print axioms Helm.Props.C11.aliased_chart_renamed
#print axioms Helm.Props.C11.disabled_vanish
