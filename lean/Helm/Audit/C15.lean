import Helm.Props.C15
#print axioms Helm.Props.C15.name_survives_archive
#print axioms Helm.Props.C15.bytes_survive
#print axioms Helm.Props.C15.entry_survives
#print axioms Helm.Props.C15.classify_reserved
#print axioms Helm.Props.C15.classify_template
#print axioms Helm.Props.C15.counterexample_bom
#print axioms Helm.Props.C15.counterexample_backslash
#print axioms Helm.Props.C15.counterexample_v1_lock
#print axioms Helm.Props.C15.values_written_only_from_raw
