import Helm.Props.C15
#print axioms Helm.Props.C15.name_survives_archive
#print axioms Helm.Props.C15.bytes_survive
#print axioms Helm.Props.C15.entry_survives
#print axioms Helm.Props.C15.classify_reserved
#print axioms Helm.Props.C15.classify_template
#print axioms Helm.Props.C15.v1_requirements_lock_kept
#print axioms Helm.Props.C15.counterexample_bom
#print axioms Helm.Props.C15.counterexample_backslash
#print axioms Helm.Props.C15.counterexample_v1_lock
#print axioms Helm.Props.C15.values_written_only_from_raw
#print axioms Helm.Props.C15.ignored_files_are_not_loaded
#print axioms Helm.Props.C15.unignored_files_are_loaded
#print axioms Helm.Props.C15.ignored_directory_hides_contents
#print axioms Helm.Props.C15.positive_rules_any_match
#print axioms Helm.Props.C15.positive_rules_order_immaterial
#print axioms Helm.Props.C15.literal_pattern
#print axioms Helm.Props.C15.star_suffix_pattern
