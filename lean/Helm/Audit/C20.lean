import Helm.Props.C20
#print axioms Helm.Props.C20.strvals_never_panics
#print axioms Helm.Props.C20.strvals_key_recovers
#print axioms Helm.Props.C20.strvals_nesting_limit
#print axioms Helm.Props.C20.storage_list_never_panics
#print axioms Helm.Props.C20.storage_query_never_panics
#print axioms Helm.Props.C20.get_never_panics
#print axioms Helm.Props.C20.delete_never_panics
#print axioms Helm.Props.C20.index_load_never_panics
#print axioms Helm.Props.C20.index_get_never_panics
#print axioms Helm.Props.C20.index_load_with_nulls_never_panics
#print axioms Helm.Props.C20.import_values_welltyped_ok
#print axioms Helm.Props.C20.import_values_never_panics
#print axioms Helm.Props.C20.import_values_illtyped_is_error
#print axioms Helm.Props.C20.archive_name_total
